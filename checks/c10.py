"""
C10 - dosing regimens deliver the specified amounts at the specified times.
Oracle: with elimination switched off through the parameters the dosed
compartment (plus the depot for indirect routes) integrates the input, so the
cumulative input is directly observable at probe times around every scheduled
start and end; with elimination on, an independent piecewise integration of
the abstract model with the scheduled input rate; regimen tables and dataset
regimens against the event list of harness/oracle/regimen.py.
"""
import numpy as np
import pandas as pd
import myokit
from scipy.integrate import solve_ivp

from harness.bootstrap import load_chi
from harness.core import Family
from harness.oracle import pk
from harness.oracle import regimen as R
from checks import c09

chi = load_chi()

PROP = 'C10'
TITLE = 'dosing regimens deliver the specified amounts at the specified times'
RULE = (
    'cases = (model: library 1-compartment PK or generated 1-3 compartment '
    'model with any compartment dosed, route direct / indirect, regimen: '
    'single / finite / indefinite with boundary cases [final time below one '
    'period, dose exactly at the final time, start > 0 with indefinite '
    'period] or an explicit multi-event myokit.Protocol); probes around '
    'every scheduled start and end; regimen tables for random final times; '
    'dataset dose tables with/without durations; signature = (model code, '
    'route, regimen class, boundary class); non-trivial = every case')
ASSUMPTIONS = [
    'reference integrator behind myokit.Simulation (DESIGN 2.2); myokit\'s '
    'pure-Python PacingSystem decides when the pace variable switches',
    'duration > period and two events with the same start are refused by '
    'myokit itself (rejections); explicit protocols with overlapping '
    'events are generated in the cumulative family only (open finding '
    'KF-C10-explicit-protocol-overlap), overlapping dataset dose rows in '
    'the dataset family',
    'final-time convention: an event starting exactly at the final time is '
    'listed (asserted by the repository\'s own tests)',
    'the dose-free re-data step uses frames sorted by time (the likelihood documents increasing times)',
]
ANCHORS = [
    'chi._mechanistic_models.PKPDModel.set_administration',
    'chi._mechanistic_models.PKPDModel.set_dosing_regimen',
    'chi._mechanistic_models.PKPDModel._add_dose_compartment',
    'chi._mechanistic_models.PKPDModel._add_dose_rate',
    'chi._predictive_models.PredictiveModel.get_dosing_regimen',
    'chi._problems.ProblemModellingController._extract_dosing_regimens',
]
REQUIRED = {'cumulative_input_probes': 400, 'regimen_tables_compared': 50,
            'indefinite_tables': 10, 'dataset_regimens_compared': 30,
            'elimination_on_cases': 20}


def gen_regimen(rng, t_max, allow_overlap=False):
    kind = ['single', 'finite', 'indefinite', 'protocol',
            'protocol_overlap'][int(rng.integers(5))]
    if kind == 'protocol_overlap' and not allow_overlap:
        kind = 'protocol'
    dose = float(rng.uniform(0.5, 5))
    start = float(rng.choice([0.0, 0.0, rng.uniform(0, 0.6 * t_max)]))
    duration = float(rng.choice([0.01, rng.uniform(0.05, 0.4)]))
    if kind == 'single':
        return kind, dict(dose=dose, start=start, duration=duration), \
            [(start, duration, dose)]
    if kind in ('protocol', 'protocol_overlap'):
        n = int(rng.integers(1, 4))
        if kind == 'protocol_overlap':
            n = max(n, 2)
        starts = np.sort(rng.uniform(0, t_max, size=n))
        ev, p = [], myokit.Protocol()
        last_end = -1.0
        for i_ev, s in enumerate(starts):
            s = float(max(s, last_end + 0.05))
            d = float(rng.uniform(0.02, 0.3))
            if kind == 'protocol_overlap' and i_ev == 1:
                # the second event starts while the first one is active (a
                # bolus during an infusion): the scheduled doses add up
                s0, d0, _ = ev[0]
                s = float(s0 + d0 * rng.uniform(0.2, 0.6))
                d = float(d0 * rng.uniform(0.1, 0.3))
            a = float(rng.uniform(0.5, 4))
            p.add(myokit.ProtocolEvent(a / d, s, d))
            ev.append((s, d, a))
            last_end = s + d
        return kind, dict(dose=p), ev
    period = float(rng.uniform(max(duration * 1.2, 0.3), 1.6))
    # (the number of doses is any count, including 0 = no dose at all)
    num = None if kind == 'indefinite' else int(rng.integers(0, 5))
    ev = R.events(dose, start, duration, period, num, t_max + 10 * period)
    return kind, dict(dose=dose, start=start, duration=duration,
                      period=period, num=num), ev


def _probes(rng, ev, t_max):
    pts = {0.0, t_max}
    for s, d, a in ev:
        for x in (s - 1e-3, s + d / 2, s + d + 1e-3, s + d + 0.1):
            if 0 <= x <= t_max:
                pts.add(float(x))
    pts = sorted(pts)
    if len(pts) > 14:
        keep = sorted(rng.choice(len(pts), size=14, replace=False))
        pts = [pts[i] for i in keep]
        if t_max not in pts:
            pts.append(t_max)
    return np.array(sorted(pts))


def _make_model(rng, idx):
    """returns (model, abstract or None, compartment, amount_var, code)"""
    from chi.library import ModelLibrary
    if idx % 3 == 0:
        m = ModelLibrary().one_compartment_pk_model()
        return m, None, 'central', 'drug_amount', 'lib1c'
    am = pk.random_model(rng, allow_nonlinear=(idx % 2 == 0))
    m = c09._load(am, chi.PKPDModel)
    j = int(rng.integers(len(am.comps)))
    c, s = am.comps[j]
    return m, am, c, s + '_amount', '%dc%s' % (
        len(am.comps), 'L' if am.is_linear() else 'N')


def _zero_elimination(names, rng, am=None):
    """parameter values with every rate constant zero (pure integrators)"""
    positive = set()
    if am is not None:
        for t in am.trans:
            if t['kind'] == 'mm':
                positive.add('global.' + t['km'])   # Michaelis constants > 0
    v = {}
    for n in names:
        if n.endswith('_amount'):
            v[n] = float(rng.uniform(0.0, 1.0))
        elif n.endswith('.size') or n.endswith('absorption_rate') \
                or n in positive:
            v[n] = float(rng.uniform(0.5, 3))
        else:
            v[n] = 0.0
    return v


def cumulative_case(ctx, rng, idx):
    m, am, comp, var, code = _make_model(rng, idx)
    direct = bool(rng.integers(2))
    t_max = float(rng.uniform(0.5, 4.0))
    kind, kw, ev = gen_regimen(rng, t_max, allow_overlap=True)
    boundary = 'none'
    if kind in ('finite', 'indefinite') and rng.random() < 0.3:
        t_max = float(kw['start'] + 0.5 * kw['period'])     # < one period
        boundary = 'final_below_one_period'
    elif kind in ('finite', 'indefinite') and rng.random() < 0.3:
        t_max = float(kw['start'] + kw['period'])           # dose at final
        boundary = 'dose_at_final_time'
    feats = {'model': code, 'direct': direct, 'regimen': kind,
             'boundary': boundary}
    ctx.case((code, direct, kind, boundary, idx % 3 == 1), True, sample=dict(
        feats, regimen_args={k: (v if not isinstance(v, myokit.Protocol)
                                 else 'myokit.Protocol') for k, v in
                             kw.items()}, events=ev, dosed=comp + '.' + var))
    # order of the two configuration calls: usually route then regimen; in a
    # third of the cases the route is chosen again (other compartment and /
    # or other route type) AFTER the regimen has been set - the regimen the
    # model keeps reporting must still be delivered
    order = 'route_regimen'
    if idx % 3 == 1:
        order = 'route_regimen_reroute'
    feats['call_order'] = order
    try:
        if order == 'route_regimen':
            m.set_administration(comp, amount_var=var, direct=direct)
            if rng.random() < 0.4 or kw.get('num') == 0:
                # the model carried another regimen before: the one set
                # last is the one delivered and reported
                m.set_dosing_regimen(7.7, start=0.05, duration=0.2,
                                     period=0.3, num=None)
                feats['earlier_regimen'] = True
            if kind not in ('protocol', 'protocol_overlap') and \
                    rng.random() < 0.4:
                # the regimen reaches the model through a reduced wrapper
                # (as after PredictiveModel.fix_parameters), by position or
                # by keyword
                m = chi.ReducedMechanisticModel(m)
                feats['through_reduced_wrapper'] = True
                if rng.random() < 0.5:
                    m.set_dosing_regimen(
                        kw['dose'], kw.get('start', 0),
                        kw.get('duration', 0.01), kw.get('period'),
                        kw.get('num'))
                else:
                    m.set_dosing_regimen(**kw)
            else:
                m.set_dosing_regimen(**kw)
        else:
            sibling = [] if am is None else [
                s_ for c_, s_ in am.comps
                if c_ == comp and s_ + '_amount' != var]
            if sibling:
                # another species of the SAME compartment was dosed first,
                # by the same kind of route
                m.set_administration(comp, amount_var=sibling[0] + '_amount',
                                     direct=direct)
                feats['rerouted_within_compartment'] = True
            elif am is not None and len(am.comps) > 1:
                j0 = int(rng.integers(len(am.comps)))
                c0, s0 = am.comps[j0]
                m.set_administration(c0, amount_var=s0 + '_amount',
                                     direct=bool(rng.integers(2)))
            else:
                m.set_administration(comp, amount_var=var,
                                     direct=bool(rng.integers(2)))
            m.set_dosing_regimen(**kw)
            m.set_administration(comp, amount_var=var, direct=direct)
    except Exception as e:      # noqa
        ctx.violation_exc('configuration_raises', e, {'case': feats}, feats)
        return
    dosed = comp + '.' + var
    outs = [dosed] + ([] if direct else ['dose.drug_amount'])
    try:
        m.set_outputs(outs)
    except Exception as e:      # noqa
        ctx.violation_exc('configuration_raises', e,
                          {'case': feats, 'outputs': outs}, feats)
        return
    names = m.parameters()
    vals = _zero_elimination(names, rng, am)
    x = np.array([vals[n] for n in names])
    probes = _probes(rng, ev, t_max)
    try:
        y = np.asarray(m.simulate(x, probes))
    except Exception as e:      # noqa
        ctx.violation_exc('simulate_raises', e,
                          {'case': feats, 'events': ev}, feats)
        return
    total = y.sum(axis=0)
    a0 = vals[dosed] + (0.0 if direct else vals['dose.drug_amount'])
    ref = np.array([a0 + R.cumulative_input(ev, t) for t in probes])
    ctx.count('cumulative_input_probes', len(probes))
    err = float(np.max(np.abs(total - ref)))
    ctx.maximum('cumulative_input_abs_err', err)
    if err > 1e-6 * (1 + np.max(np.abs(ref))):
        k = int(np.argmax(np.abs(total - ref)))
        ctx.violation('cumulative_input_equals_scheduled_doses',
                      'cumulative_input_mismatch:' + kind,
                      {'probe_time': probes[k], 'observed': total[k],
                       'expected': ref[k], 'events': ev, 'probes': probes,
                       'observed_all': total, 'expected_all': ref,
                       'case': feats}, feats)
    # the regimen the model reports is the one applied
    rep = m.dosing_regimen()
    if rep is None:
        ctx.violation('reported_regimen', 'no_regimen_reported', {}, feats)
    else:
        got = sorted((e.start(), e.duration(), e.level() * e.duration(),
                      e.period(), e.multiplier()) for e in rep.events())
        if kind in ('single', 'protocol', 'protocol_overlap'):
            want = sorted((s, d, a, 0, 0) for s, d, a in ev)
        elif kw['num'] == 0:
            want = []
        else:
            want = [(kw['start'], kw['duration'], kw['dose'], kw['period'],
                     kw['num'] or 0)]
        if len(got) != len(want) or not np.allclose(np.array(got, dtype=float),
                           np.array(want, dtype=float), rtol=1e-12):
            ctx.violation('reported_regimen', 'reported_regimen_mismatch',
                          {'reported': got, 'expected': want}, feats)


def elimination_case(ctx, rng, idx):
    """elimination on: independent piecewise integration"""
    am = pk.random_model(rng, allow_nonlinear=(idx % 2 == 0))
    m = c09._load(am, chi.PKPDModel)
    j = int(rng.integers(len(am.comps)))
    comp, spec = am.comps[j]
    direct = bool(rng.integers(2))
    t_max = float(rng.uniform(1.0, 3.0))
    kind, kw, ev = gen_regimen(rng, t_max)
    feats = {'model': '%dc' % len(am.comps), 'direct': direct,
             'regimen': kind, 'elimination': True}
    ctx.case(('elim', len(am.comps), am.is_linear(), direct, kind), True,
             sample=dict(feats, events=ev, model_desc=am.describe()))
    m.set_administration(comp, amount_var=spec + '_amount', direct=direct)
    m.set_dosing_regimen(**kw)
    cands = am.output_candidates()
    outs = [cands[i] for i in rng.permutation(len(cands))[:2]]
    m.set_outputs(outs)
    names = m.parameters()
    vals = {n: float(rng.uniform(0.3, 1.5)) for n in names}
    x = np.array([vals[n] for n in names])
    probes = _probes(rng, ev, t_max)
    probes = probes[probes > 0] if len(probes) > 1 else probes
    try:
        y = np.asarray(m.simulate(x, probes))
    except Exception as e:      # noqa
        ctx.violation_exc('simulate_raises', e, {'case': feats}, feats)
        return
    # reference: abstract model + depot state, restarted at every switch
    f = am._rhs(vals)
    n_s = len(am._y0(vals))
    ka = vals.get('dose.absorption_rate', 0.0)

    def rhs(t, z, rate):
        dz = np.zeros(n_s + 1)
        if direct:
            dz[:n_s] = f(t, z[:n_s], rate_in=(j, rate))
        else:
            dz[:n_s] = f(t, z[:n_s], rate_in=(j, ka * z[n_s]))
            dz[n_s] = -ka * z[n_s] + rate
        return dz
    z = np.concatenate([am._y0(vals), [vals.get('dose.drug_amount', 0.0)]])
    bps = [0.0] + R.breakpoints(ev, t_max + 1) + [t_max + 1]
    sols = {}
    for a, b in zip(bps[:-1], bps[1:]):
        rate = R.rate(ev, 0.5 * (a + b))
        te = [t for t in probes if a < t <= b]
        sol = solve_ivp(lambda t, zz: rhs(t, zz, rate), (a, b), z,
                        method='DOP853', rtol=1e-12, atol=1e-14,
                        t_eval=sorted(set(te + [b])))
        for i, t in enumerate(sol.t):
            sols[float(t)] = sol.y[:, i]
        z = sol.y[:, -1]
    Y = np.array([sols[float(t)] for t in probes]).T
    ref = am._outputs(vals, Y[:n_s], outs)
    ctx.count('elimination_on_cases')
    sc = np.max(np.abs(ref)) + 1e-3
    ctx.maximum('elimination_relerr', ctx.relerr(y, ref, scale=sc))
    if not ctx.close(y, ref, rtol=1e-6, scale=sc):
        ctx.violation('trajectory_under_dosing', 'dosed_trajectory_mismatch',
                      {'chi': y, 'reference': ref, 'events': ev,
                       'probes': probes, 'case': feats}, feats)


def table_case(ctx, rng, idx):
    from chi.library import ModelLibrary
    m = ModelLibrary().one_compartment_pk_model()
    m.set_administration('central', direct=bool(rng.integers(2)))
    t_ref = float(rng.uniform(1.0, 6.0))
    kind, kw, ev_all = gen_regimen(rng, t_ref)
    # schedules typed in decimal (every 0.1 h, every 0.2 h, ...): start +
    # n * period lands exactly on a final time, although the floating-point
    # quotient (final - start) / period falls just below n
    decimal = kind == 'indefinite' and rng.random() < 0.35
    if decimal:
        kw['start'] = float(rng.choice([0.0, 0.5, 0.3]))
        kw['period'] = float(rng.choice([0.1, 0.2, 0.3, 0.7, 1.1]))
        kw['duration'] = 0.01
        ev_all = R.events(kw['dose'], kw['start'], kw['duration'],
                          kw['period'], None, t_ref + 10 * kw['period'])
        ctx.count('decimal_schedules')
    wrapper = ['predictive', 'population', 'prior', 'pam'][idx % 4]
    pm = chi.PredictiveModel(m, [chi.GaussianErrorModel()])
    candidates = [pm]
    if wrapper == 'population':
        obj = chi.PopulationPredictiveModel(
            pm, chi.PooledModel(n_dim=pm.n_parameters()))
    elif wrapper == 'pam':
        # probabilistic average of several candidate models, each with its
        # own mechanistic model: the regimen is set through the average
        from checks import c15
        m2 = ModelLibrary().one_compartment_pk_model()
        m2.set_administration('central', direct=bool(rng.integers(2)))
        pm2 = chi.PredictiveModel(m2, [chi.LogNormalErrorModel()])
        candidates = [pm, pm2]
        if rng.random() < 0.5:
            candidates = candidates[::-1]
        obj = chi.PAMPredictiveModel([
            chi.PosteriorPredictiveModel(c_, c15._posterior_dataset(
                rng, c_.get_parameter_names(), 2, 4, ['a']))
            for c_ in candidates], weights=[1.0, 2.0])
    else:
        obj = pm
    try:
        obj.set_dosing_regimen(**kw)
    except Exception as e:      # noqa
        ctx.violation_exc('configuration_raises', e, {'kind': kind})
        return
    choices = [t_ref, 0.0, None]
    if kind in ('finite', 'indefinite'):
        choices += [kw['start'] + 0.5 * kw['period'],
                    kw['start'] + 2 * kw['period'],      # dose at final time
                    kw['start'] - 0.01 if kw['start'] > 0.02 else 0.3 *
                    kw['period'], 7.3 * kw['period']]
    final = choices[int(rng.integers(len(choices)))]
    if decimal:
        final = kw['start'] + int(rng.integers(1, 16)) * kw['period']
    feats = {'regimen': kind, 'final_time': final, 'wrapper': wrapper,
             'decimal_schedule': bool(decimal)}
    ctx.case(('table', kind, wrapper,
              'none' if final is None else
              ('zero' if final == 0 else 'positive')), True,
             sample=dict(feats, events=ev_all[:6]))
    try:
        df = obj.get_dosing_regimen(final)
    except Exception as e:      # noqa
        ctx.violation_exc('regimen_table_raises', e, {'case': feats}, feats)
        return
    if final is None:
        # all events of finite regimens; first one of indefinite regimens
        if kind == 'indefinite':
            want = ev_all[:1]
        elif kind == 'finite':
            want = R.events(kw['dose'], kw['start'], kw['duration'],
                            kw['period'], kw['num'], np.inf)
        else:
            want = ev_all
    elif kind in ('finite', 'indefinite'):
        want = R.events(kw['dose'], kw['start'], kw['duration'],
                        kw['period'], kw['num'], final)
    else:
        want = [e for e in ev_all if e[0] <= final]
    ctx.count('regimen_tables_compared')
    if kind == 'indefinite' and final is not None:
        ctx.count('indefinite_tables')
    if df is None:
        got = []
    else:
        got = sorted(zip(df['Time'].astype(float), df['Duration'].astype(
            float), df['Dose'].astype(float)))
    want = sorted(want)
    ok = len(got) == len(want) and (len(got) == 0 or np.allclose(
        np.array(got), np.array(want), rtol=1e-9, atol=1e-12))
    if not ok:
        ctx.violation('regimen_table_lists_applied_events',
                      'regimen_table_mismatch:' + kind,
                      {'table': got, 'expected': want,
                       'regimen': {k: v for k, v in kw.items()
                                   if not isinstance(v, myokit.Protocol)},
                       'final_time': final}, feats)
        return
    # every model that simulates for the wrapper applies that regimen
    for j, c_ in enumerate(candidates):
        dfc = c_.get_dosing_regimen(final)
        gotc = [] if dfc is None else sorted(zip(
            dfc['Time'].astype(float), dfc['Duration'].astype(float),
            dfc['Dose'].astype(float)))
        ctx.count('candidate_regimens_compared')
        if len(gotc) != len(want) or (len(want) and not np.allclose(
                np.array(gotc), np.array(want), rtol=1e-9, atol=1e-12)):
            ctx.violation('regimen_table_lists_applied_events',
                          'candidate_model_without_the_regimen:' + wrapper,
                          {'candidate': j, 'its table': gotc,
                           'reported table': want}, feats)
            return


def dataset_case(ctx, rng, idx):
    from chi.library import ModelLibrary
    m = ModelLibrary().one_compartment_pk_model()
    direct = bool(rng.integers(2))
    m.set_administration('central', direct=direct)
    n_ids = int(rng.integers(1, 5))
    id_style = ['int', 'str', 'float'][int(rng.integers(3))]
    with_duration = bool(rng.integers(2))
    # dose rows may overlap in time (a bolus during an infusion, a loading
    # dose together with the start of an infusion): the rates add up
    overlapping = with_duration and idx % 4 == 3
    duplicates = idx % 4 == 1 or (overlapping and rng.random() < 0.3)
    rows, truth = [], {}
    for i in range(n_ids):
        label = {'int': i + 1, 'str': 'p%d' % i, 'float': float(i + 1)}[
            id_style]
        key = str(label)
        truth[key] = []
        for t in np.sort(rng.uniform(0.2, 5, size=int(rng.integers(1, 4)))):
            rows.append({'ID': label, 'Time': float(t),
                         'Observable': 'central.drug_concentration',
                         'Value': float(rng.uniform(0.1, 2)),
                         'Dose': np.nan, 'Duration': np.nan})
        last_end = -1.0
        starts = np.sort(rng.uniform(0, 4, size=int(rng.integers(0, 4))))
        if duplicates and rng.random() < 0.4:
            # the same dose twice at every dosing time (two tablets per
            # day), separated by dose-free gaps
            a_ = float(rng.uniform(0.5, 4))
            d_ = float(rng.uniform(0.05, 0.3)) if with_duration else np.nan
            for s_ in 0.3 + 0.9 * np.arange(int(rng.integers(2, 4))):
                for _ in range(2):
                    rows.append({'ID': label, 'Time': float(s_),
                                 'Observable': np.nan, 'Value': np.nan,
                                 'Dose': a_, 'Duration': d_})
                    truth[key].append((float(s_), 0.01 if np.isnan(d_)
                                       else d_, a_))
            continue
        if overlapping and len(starts) >= 2 and rng.random() < 0.4:
            starts[1] = starts[0]       # e.g. loading bolus + infusion
        for s in starts:
            s = float(s) if overlapping else float(max(s, last_end + 0.05))
            d = float(rng.uniform(0.05, 1.5 if overlapping else 0.4)) if (
                with_duration and rng.random() < 0.7) else np.nan
            if with_duration and rng.random() < 0.15:
                # a bolus recorded with duration 0 instead of an empty cell
                d = 0.0
            a = float(rng.uniform(0.5, 4))
            rows.append({'ID': label, 'Time': s, 'Observable': np.nan,
                         'Value': np.nan, 'Dose': a, 'Duration': d})
            dd = 0.01 if (np.isnan(d) or d == 0) else d
            truth[key].append((s, dd, a))
            last_end = s + dd
            if duplicates and rng.random() < 0.5:
                # the same dose given twice at the same time (two tablets
                # recorded as two identical rows): both are administered
                rows.append(dict(rows[-1]))
                truth[key].append((s, dd, a))
    df = pd.DataFrame(rows)
    df = df.iloc[rng.permutation(len(df))].reset_index(drop=True)
    dur_key = 'Duration'
    if not with_duration:
        df = df.drop(columns=['Duration'])
        dur_key = None
    feats = {'n_ids': n_ids, 'id_style': id_style,
             'duration_column': with_duration, 'direct': direct,
             'overlapping_dose_rows': overlapping,
             'duplicate_dose_rows': duplicates}
    ctx.case(('dataset', n_ids, id_style, with_duration, direct,
              duplicates), True,
             sample=dict(feats, dose_rows=truth))
    c = chi.ProblemModellingController(m, chi.GaussianErrorModel())
    # call order: parameters may be fixed before / after the data arrive and
    # the data may be set more than once
    order = ['plain', 'fix_mechanistic_first', 'fix_error_first',
             'fix_then_data_twice', 'fix_after_data', 'plain'][idx % 6]
    feats['call_order'] = order
    fix_m = {'global.elimination_rate': 0.3}
    if rng.random() < 0.5:
        fix_m['central.drug_amount'] = 0
    try:
        if order in ('fix_mechanistic_first', 'fix_then_data_twice'):
            c.fix_parameters(fix_m)
        elif order == 'fix_error_first':
            c.fix_parameters({'Sigma': 0.2})
        c.set_data(df, dose_duration_key=dur_key)
        if order == 'fix_then_data_twice':
            c.fix_parameters({'central.size': 2.0})
            c.set_data(df, dose_duration_key=dur_key)
        elif order == 'fix_after_data':
            c.fix_parameters(fix_m)
        regs = c.get_dosing_regimens()
    except Exception as e:      # noqa
        ctx.violation_exc('set_data_raises', e, {'case': feats}, feats)
        return
    ctx.count('call_order_' + order)
    if regs is None:
        if any(truth.values()):
            ctx.violation('dataset_regimen_reproduces_dose_rows',
                          'no_regimens_reported',
                          {'dose_rows': truth}, feats)
        return
    for key, want in truth.items():
        ctx.count('dataset_regimens_compared')
        if key not in regs:
            ctx.violation('dataset_regimen_reproduces_dose_rows',
                          'individual_missing',
                          {'id': key, 'ids': list(regs)}, feats)
            continue
        got = sorted((e.start(), e.duration(), e.level() * e.duration())
                     for e in regs[key].events())
        bad_period = any(e.period() != 0 or e.multiplier() != 0
                         for e in regs[key].events())
        want = sorted(want)
        overlap = any(a_[0] + a_[1] > b_[0] + 1e-12
                      for a_, b_ in zip(want[:-1], want[1:]))
        if overlap:
            # the protocol may split overlapping rows into pieces: its
            # cumulative input has to equal that of the dose rows at all times
            ctx.count('overlapping_dose_tables')
            pts = sorted(set([p_ for s_, d_, a_ in want
                              for p_ in (s_, s_ + d_, s_ + d_ / 2)] + [9.0]))
            cg = [R.cumulative_input(got, t_) for t_ in pts]
            cw = [R.cumulative_input(want, t_) for t_ in pts]
            if bad_period or not np.allclose(cg, cw, rtol=1e-9, atol=1e-12):
                ctx.violation('dataset_regimen_reproduces_dose_rows',
                              'overlapping_dose_rows_not_reproduced',
                              {'id': key, 'regimen': got, 'dose_rows': want,
                               'cumulative_regimen': cg,
                               'cumulative_dose_rows': cw}, feats)
                continue
        elif bad_period or len(got) != len(want) or (len(want) and not
                                                     np.allclose(
                np.array(got), np.array(want), rtol=1e-9, atol=1e-12)):
            ctx.violation('dataset_regimen_reproduces_dose_rows',
                          'dataset_regimen_mismatch',
                          {'id': key, 'regimen': got, 'dose_rows': want},
                          feats)
        # and the model applies it: cumulative input at the end
        if want:
            mm = m.copy()
            mm.set_dosing_regimen(regs[key])
            mm.set_outputs(['central.drug_amount'] + (
                [] if direct else ['dose.drug_amount']))
            names = mm.parameters()
            vals = _zero_elimination(names, rng)
            vals['global.elimination_rate'] = 0.0
            t_end = max(s + d for s, d, a in want) + 0.2
            y = mm.simulate([vals[n] for n in names], [t_end])
            a0 = vals['central.drug_amount'] + (
                0 if direct else vals['dose.drug_amount'])
            tot = float(y.sum())
            exp = a0 + sum(a for s, d, a in want)
            ctx.count('cumulative_input_probes')
            if abs(tot - exp) > 1e-6 * (1 + exp):
                ctx.violation('cumulative_input_equals_scheduled_doses',
                              'dataset_cumulative_input_mismatch',
                              {'observed': tot, 'expected': exp,
                               'dose_rows': want}, feats)

    # ---- a dose-free dataset given to the same controller later is scored
    # ---- without any regimen (as by a fresh controller)
    if order == 'plain' and any(truth.values()):
        import pints
        try:
            # (rows in chronological order: the likelihood documents
            # increasing times)
            df = df.sort_values('Time', kind='stable').reset_index(drop=True)
            c = chi.ProblemModellingController(m, chi.GaussianErrorModel())
            c.set_data(df, dose_duration_key=dur_key)
            n_par = c.get_n_parameters()
            prior = pints.ComposedLogPrior(*[
                pints.GaussianLogPrior(1.0, 1.0) for _ in range(n_par)])
            c.set_log_prior(prior)
            for key in truth:
                c.get_log_posterior(individual=key)
            pm_before = c.get_predictive_model().get_dosing_regimen()
            df0 = df[df['Dose'].isnull()].drop(
                columns=[k_ for k_ in ('Dose', 'Duration')
                         if k_ in df.columns])
            c.set_data(df0, dose_key=None, dose_duration_key=None)
            c.set_log_prior(prior)
            fresh = chi.ProblemModellingController(
                m, chi.GaussianErrorModel())
            fresh.set_data(df0, dose_key=None, dose_duration_key=None)
            fresh.set_log_prior(prior)
            x = rng.uniform(0.5, 1.5, n_par)
            for key in truth:
                va = c.get_log_posterior(individual=key)(x)
                vb = fresh.get_log_posterior(individual=key)(x)
                ctx.count('dose_free_redata_compared')
                if not (va == vb or abs(va - vb) <= 1e-9 * (1 + abs(vb))):
                    ctx.violation(
                        'dataset_regimen_reproduces_dose_rows',
                        'stale_regimen_after_dose_free_data',
                        {'id': key, 'controller_with_history': va,
                         'fresh_controller': vb,
                         'dose_rows_of_first_dataset': truth}, feats)
                    return
            if pm_before is not None and len(pm_before):
                ctx.violation('dataset_regimen_reproduces_dose_rows',
                              'controller_model_keeps_an_individuals_regimen',
                              {'predictive_model_regimen':
                               pm_before.to_dict('records')}, feats)
        except Exception as e:      # noqa
            ctx.violation_exc('set_data_raises', e,
                              {'case': feats, 'step': 'dose-free data'},
                              feats)


FAMILIES = [
    Family('cumulative', cumulative_case, quick=240, thorough=6000),
    Family('elimination', elimination_case, quick=64, thorough=1500),
    Family('table', table_case, quick=300, thorough=5000),
    Family('dataset', dataset_case, quick=96, thorough=2000),
]
