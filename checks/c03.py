"""
C03 - analytic gradients equal the true derivatives of the evaluated log-pdf.
Oracle: complex-step gradient of the reference value function (C01 / C02
reference models), S1-score parity with plain evaluation.
"""
import numpy as np
import pints

from harness.bootstrap import load_chi
from harness.core import Family
from harness import gen_loglik as GL
from harness.oracle import densities as D
from checks import c02

chi = load_chi()

PROP = 'C03'
TITLE = 'analytic gradients equal derivatives of the evaluated log-pdf'
RULE = (
    'individual family: C01 configuration space (1-3 outputs, error-model '
    'assignments, overlapping/tied grids) with random fixed-parameter subsets '
    'and optional prior; hierarchical families: the C02 enumeration '
    '(total dimension 3, exhaustive over the alphabet) and random deeper '
    'compositions with reduced population models / posteriors; SBML family: '
    'library PK model through the reference integrator; three evaluation '
    'orders (S1 first, value first, alternating); signature = configuration '
    'signature + order; non-trivial = as in C01/C02')
ASSUMPTIONS = [
    'the reference value functions are those validated against chi by C01 '
    'and C02; gradients are exact complex-step derivatives of them',
    'SBML sensitivities come from the reference integrator (DESIGN 2.2), '
    'tolerance 1e-6',
]
ANCHORS = [
    'chi._log_pdfs.LogLikelihood.evaluateS1',
    'chi._log_pdfs.LogPosterior.evaluateS1',
    'chi._log_pdfs.HierarchicalLogLikelihood.evaluateS1',
    'chi._log_pdfs.HierarchicalLogPosterior.evaluateS1',
    'chi._population_models.ComposedPopulationModel._compute_reduced_sensitivities',
    'chi._population_models.CovariatePopulationModel.compute_sensitivities',
]
REQUIRED = {'s1_score_compared': 100, 'gradient_entries_compared': 1000,
            'hier_gradients_compared': 50}


def _grad_check(ctx, obj, x, ref_value, ref_grad, feats, describe, tag,
                order, rtol=1e-7):
    """evaluate in the given order and compare"""
    try:
        if order == 'value_first':
            val = obj(x)
            score, grad = obj.evaluateS1(x)
        elif order == 's1_first':
            score, grad = obj.evaluateS1(x)
            val = obj(x)
        else:
            obj.evaluateS1(x)
            val = obj(x)
            score, grad = obj.evaluateS1(x)
            val2 = obj(x)
            if not (val == val2 or (np.isnan(val) and np.isnan(val2))):
                ctx.violation('repeat_value', 'alternating_value_changed',
                              {'first': val, 'second': val2,
                               'case': describe}, feats)
    except Exception as e:      # noqa
        ctx.violation_exc('evaluateS1_succeeds_where_value_finite', e,
                          {'case': describe, 'order': order}, feats)
        return
    grad = np.asarray(grad, dtype=float)
    ctx.count('s1_score_compared')
    sc = abs(ref_value) + 10.0 if np.isfinite(ref_value) else 1.0
    if np.isfinite(val) != np.isfinite(score):
        ctx.violation('s1_finiteness_matches_value', 's1_finiteness',
                      {'value': val, 's1_score': score, 'case': describe},
                      feats)
        return
    if np.isfinite(val) and not ctx.close(score, val, rtol=rtol, scale=sc):
        ctx.violation('s1_score_equals_value', 's1_score_mismatch',
                      {'value': val, 's1_score': score, 'case': describe},
                      feats)
    if grad.shape != (len(x),):
        ctx.violation('gradient_length', 'gradient_length',
                      {'shape': grad.shape, 'expected': len(x),
                       'case': describe}, feats)
        return
    if not np.isfinite(val):
        return
    g_ref = ref_grad
    gs = max(1.0, float(np.max(np.abs(g_ref))))
    ctx.count('gradient_entries_compared', int(grad.size))
    ctx.maximum('gradient_relerr_' + tag, ctx.relerr(grad, g_ref, scale=gs))
    if not ctx.close(grad, g_ref, rtol=rtol, scale=gs):
        bad = int(np.argmax(np.abs(grad - g_ref)))
        return bad, grad, g_ref
    return None


ORDERS = ['value_first', 's1_first', 'alternating']


def individual_case(ctx, rng, idx):
    case = GL.LLCase(rng, allow_empty=(idx % 10 == 0))
    order = ORDERS[idx % 3]
    with_prior = idx % 4 == 0
    x_full = case.point(rng)
    case.choose_fixed(rng, x_full) if idx % 2 == 0 else None
    feats = {'n_outputs': case.n_out, 'error_models': case.em_names,
             'arrangement': case.arrangement, 'order': order,
             'fixed': sorted(case.fixed), 'prior': with_prior}
    ctx.case(case.signature() + (order, int(np.sum(~case.free)), with_prior),
             case.nontrivial() or bool(case.fixed), sample=case.describe())
    try:
        ll = case.build()
        if case.fixed:
            ll.fix_parameters(case.fixed)
    except (ValueError, TypeError) as e:
        ctx.reject('constructor: ' + str(e)[:60])
        return
    phases = 1
    if case.fixed and np.any(case.free) and idx % 4 in (0, 2):
        phases = 2 + int(rng.integers(2))
    for phase in range(phases):
        if phase:
            # re-configure the SAME object: release some fixed parameters and
            # fix as many free ones (count unchanged), in one call or two
            names_full = case.full_names()
            fixed_idx = np.flatnonzero(~case.free)
            free_idx = np.flatnonzero(case.free)
            k = int(rng.integers(1, min(len(fixed_idx), len(free_idx)) + 1))
            rel = rng.choice(fixed_idx, size=k, replace=False)
            fx = rng.choice(free_idx, size=k, replace=False)
            d_rel = {names_full[i]: None for i in rel}
            d_fix = {names_full[i]: float(x_full[i]) for i in fx}
            try:
                if rng.random() < 0.5:
                    items = list(d_rel.items()) + list(d_fix.items())
                    ll.fix_parameters(dict(
                        items[i] for i in rng.permutation(len(items))))
                else:
                    ll.fix_parameters(d_fix)
                    ll.fix_parameters(d_rel)
            except Exception as e:      # noqa
                ctx.violation_exc('refix_succeeds', e,
                                  {'case': case.describe()}, feats)
                return
            case.free[rel] = True
            case.free[fx] = False
            case.fixed = {names_full[i]: float(x_full[i])
                          for i in np.flatnonzero(~case.free)}
            ctx.count('refixed_configurations')
        if _individual_phase(ctx, rng, case, ll, x_full, with_prior, order,
                             dict(feats, phase=phase)) == 'stop':
            return


def _individual_phase(ctx, rng, case, ll, x_full, with_prior, order, feats):
    x = x_full[case.free]
    if len(x) == 0:
        return 'stop'
    obj = ll
    prior = None
    if with_prior:
        prior = pints.ComposedLogPrior(*[
            pints.GaussianLogPrior(float(v), 0.5) for v in x])
        obj = chi.LogPosterior(ll, prior)
    free = case.free.copy()

    def ref(z):
        zz = np.array(x_full, dtype=complex)
        zz[free] = z
        s = case.ref_total(zz)
        if prior is not None:
            s = s + np.sum(D.norm_logpdf(z, x, 0.5))
        return s
    rv = float(np.real(ref(x)))
    rg = D.cstep_grad(ref, x)
    names = obj.get_parameter_names()
    want_names = [n for n, f in zip(case.full_names(), free) if f]
    if list(names) != want_names:
        ctx.violation('names_follow_free_parameters', 'names_after_refix',
                      {'chi': list(names), 'expected': want_names,
                       'case': case.describe()}, feats)
        return 'stop'
    res = _grad_check(ctx, obj, x, rv, rg, feats, case.describe(),
                      'individual', order)
    if res is not None:
        bad, grad, g_ref = res
        which = 'mechanistic' if names[bad] in ('k', 'b') or \
            names[bad].startswith('a') else 'error'
        ctx.violation('gradient_vs_complex_step',
                      'gradient_mismatch:individual:' + which,
                      {'chi': grad, 'reference': g_ref, 'worst': bad,
                       'names': names, 'case': case.describe()}, feats)
        return 'stop'


def _hier(ctx, rng, case, order, tag):
    feats = dict(case.features(), order=order)
    ctx.case(case.signature() + (order,), case.nontrivial(),
             sample=case.describe())
    if c02.build(ctx, case, rng) is None:
        return
    x = case.x_free()
    rv = float(np.real(case.ref_value(x)))
    rg = case.ref_grad(x)
    ctx.count('hier_gradients_compared')
    res = _grad_check(ctx, case.obj, x, rv, rg, feats, case.describe(),
                      tag, order)
    c02.check_integer_vector(ctx, case, rng, with_s1=True)
    if res is not None:
        bad, grad, g_ref = res
        free_idx = np.flatnonzero(case.free_mask())
        level, indiv, li, loc = case.h.describe()[int(free_idx[bad])]
        leaf = case.leaves[li]
        ctx.violation('gradient_vs_complex_step',
                      'gradient_mismatch:%s:%s%s' % (
                          level, leaf.kind, ':cov' if leaf.cov else ''),
                      {'chi': grad, 'reference': g_ref, 'worst': bad,
                       'names': case.obj.get_parameter_names(),
                       'case': case.describe()}, feats)


def hier_enumerated_case(ctx, rng, idx):
    case = c02.make_enumerated(rng, idx, posterior=(idx % 3 == 0))
    _hier(ctx, rng, case, ORDERS[idx % 3], 'hier_enum')


def hier_random_case(ctx, rng, idx):
    case = c02.make_random(rng, idx)
    _hier(ctx, rng, case, ORDERS[idx % 3], 'hier_random')


def sbml_case(ctx, rng, idx):
    """library PK model: S1 score parity + gradient vs finite differences of
    the brute-force reference (independent single-time solves)"""
    from checks import c01
    case = c01._SbmlCase(rng)
    order = ORDERS[idx % 3]
    feats = {'sbml': True, 'outputs': case.outs,
             'error_models': case.em_names, 'order': order}
    ctx.case(('sbml', tuple(case.outs), tuple(case.em_names), order),
             True, sample=case.describe())
    try:
        ll = case.build()
    except (ValueError, TypeError) as e:
        ctx.reject('constructor: ' + str(e)[:60])
        return
    x = case.point(rng)
    try:
        if order == 's1_first':
            score, grad = ll.evaluateS1(x)
            val = ll(x)
        else:
            val = ll(x)
            score, grad = ll.evaluateS1(x)
    except Exception as e:      # noqa
        ctx.violation_exc('evaluateS1_succeeds_where_value_finite', e,
                          {'case': case.describe()}, feats)
        return
    ctx.count('s1_score_compared')
    ctx.count('sbml_cases')
    if not ctx.close(score, val, rtol=1e-7, scale=abs(val) + 10):
        ctx.violation('s1_score_equals_value', 's1_score_mismatch:sbml',
                      {'value': val, 's1_score': score,
                       'case': case.describe()}, feats)
    grad = np.asarray(grad, dtype=float)
    if grad.shape != (len(x),):
        ctx.violation('gradient_length', 'gradient_length:sbml',
                      {'shape': grad.shape}, feats)
        return
    # Richardson-extrapolated central differences of chi's own value
    # (integrator noise ~1e-10): only entries with a small error estimate
    g = np.empty(len(x))
    err = np.empty(len(x))
    for k in range(len(x)):
        h = 1e-3 * max(abs(x[k]), 0.1)
        d = []
        for hh in (h, h / 2):
            xp, xm = x.copy(), x.copy()
            xp[k] += hh
            xm[k] -= hh
            d.append((ll(xp) - ll(xm)) / (2 * hh))
        g[k] = (4 * d[1] - d[0]) / 3
        err[k] = abs(d[1] - d[0])
    gs = max(1.0, float(np.max(np.abs(g))))
    ok = err < 1e-4 * gs
    ctx.count('gradient_entries_compared', int(np.sum(ok)))
    ctx.count('sbml_fd_inconclusive_entries', int(np.sum(~ok)))
    if np.any(ok):
        rel = np.abs(grad[ok] - g[ok]) / gs
        ctx.maximum('gradient_relerr_sbml_fd', float(np.max(rel)))
        if np.any(rel > 1e-4):
            ctx.violation('gradient_vs_finite_difference',
                          'gradient_mismatch:sbml',
                          {'chi': grad, 'fd': g, 'fd_err': err,
                           'names': ll.get_parameter_names(),
                           'case': case.describe()}, feats)


FAMILIES = [
    Family('individual', individual_case, quick=2500, thorough=40000),
    Family('hier_enumerated', hier_enumerated_case, quick=c02._n_enum(),
           thorough=c02._n_enum()),
    Family('hier_random', hier_random_case, quick=800, thorough=12000),
    Family('sbml', sbml_case, quick=48, thorough=600),
]
