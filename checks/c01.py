"""
C01 - the individual log-likelihood sums each observation's density exactly
once.  Oracle: brute force over the raw (output, time, value) triples with the
reference densities and a closed-form toy model (or, for the SBML family, a
fresh model solved at that single time point).
"""
import itertools

import numpy as np
import pints

from harness.bootstrap import load_chi
from harness.core import Family
from harness import forms as F
from harness import gen_loglik as G
from harness import toys
from harness.oracle import densities as D

chi = load_chi()

PROP = 'C01'
TITLE = 'individual log-likelihood sums each observation exactly once'
RULE = (
    'cases = (1-3 outputs, one of the 4 error models per output, per-output '
    'time grids from the arrangement classes identical/disjoint/nested/'
    'overlapping/interleaved/length-1/tied/random/empty over a small pool of '
    'time values, list/array input forms, flat single-output form); the '
    '"enumerated" family lists every pair of grids over a 4-point pool with '
    'multiplicities 0-2; signature = (n_outputs, error models, overlap '
    'pattern of the grids); non-trivial = >=2 outputs with non-identical '
    'grids, or a repeated time point')
ASSUMPTIONS = [
    'reference densities of harness/oracle/densities.py encode the documented '
    'error models (checked against chi by C04)',
    'toy mechanistic model has closed-form outputs; SBML family uses the '
    'reference integrator behind myokit.Simulation (DESIGN 2.2), tolerance '
    '1e-6',
    'decreasing time vectors are refused by the constructor (documented) and '
    'count as rejections',
]
ANCHORS = [
    'chi._log_pdfs.LogLikelihood._arange_times_for_mechanistic_model',
    'chi._log_pdfs.LogLikelihood.__call__',
    'chi._log_pdfs.LogLikelihood.compute_pointwise_ll',
    'chi._log_pdfs.LogPosterior.__call__',
]
REQUIRED = {'value_compared': 100, 'pointwise_compared': 100,
            'tied_cases_evaluated': 5, 'posterior_compared': 10}


def _compare(ctx, case, ll, x, rtol=1e-9, tag='toy'):
    feats = {'n_outputs': case.n_out, 'error_models': case.em_names,
             'arrangement': case.arrangement,
             'tied': any(len(np.unique(t)) != len(t) for t in case.times),
             'empty': any(len(t) == 0 for t in case.times)}
    ref_pw = [np.real(v) for v in case.ref_pointwise(x)]
    ref_tot = float(sum(np.sum(v) for v in ref_pw))
    sc = float(sum(np.sum(np.abs(v)) for v in ref_pw)) + 1e-300
    n_obs_ref = [len(t) for t in case.times]

    # n_observations
    try:
        n_obs = list(ll.n_observations())
        if [int(v) for v in n_obs] != n_obs_ref:
            ctx.violation('n_observations', 'n_observations_wrong',
                          {'chi': n_obs, 'expected': n_obs_ref,
                           'case': case.describe()}, feats)
    except Exception as e:      # noqa
        ctx.violation_exc('n_observations', e, {'case': case.describe()},
                          feats)
    # value
    try:
        val = ll(x)
    except Exception as e:      # noqa
        ctx.count('evaluation_raised')
        ctx.violation_exc('constructed_object_evaluates', e,
                          {'case': case.describe(), 'x': x}, feats)
        return
    if feats['tied']:
        ctx.count('tied_cases_evaluated')
    ctx.count('value_compared')
    ctx.maximum('value_relerr_' + tag, ctx.relerr(val, ref_tot, scale=sc))
    if not ctx.close(val, ref_tot, rtol=rtol, scale=sc):
        ctx.violation('value_vs_bruteforce', 'value_mismatch',
                      {'chi': val, 'reference': ref_tot,
                       'case': case.describe(), 'x': x}, feats)
    # pointwise
    try:
        pw = np.asarray(ll.compute_pointwise_ll(x), dtype=float)
    except Exception as e:      # noqa
        ctx.violation_exc('constructed_object_evaluates', e,
                          {'case': case.describe(), 'x': x,
                           'call': 'compute_pointwise_ll'}, feats)
        return
    ctx.count('pointwise_compared')
    if pw.shape != (sum(n_obs_ref),):
        ctx.violation('pointwise_length', 'pointwise_length',
                      {'shape': pw.shape, 'expected': sum(n_obs_ref),
                       'case': case.describe()}, feats)
        return
    if not ctx.close(np.sum(pw), val, rtol=rtol, scale=sc):
        ctx.violation('pointwise_sums_to_total', 'pointwise_sum',
                      {'sum': float(np.sum(pw)), 'total': val,
                       'case': case.describe()}, feats)
    off = 0
    for o in range(case.n_out):
        t = case.times[o]
        seg = pw[off:off + len(t)]
        off += len(t)
        ref = ref_pw[o]
        # tied groups are compared as multisets
        seg2, ref2 = seg.copy(), ref.copy()
        for tv in np.unique(t):
            m = t == tv
            if np.sum(m) > 1:
                seg2[m] = np.sort(seg[m])
                ref2[m] = np.sort(ref[m])
        if not ctx.close(seg2, ref2, rtol=rtol, atol=rtol * 10):
            ctx.violation('pointwise_order_and_values',
                          'pointwise_mismatch',
                          {'output': o, 'chi': seg, 'reference': ref,
                           'case': case.describe()}, feats)
            break
    return val


def _forms(ctx, rng, case, ll, x, idx):
    """the same parameter values in another container / dtype"""
    if any(len(t) == 0 for t in case.times):
        return
    if idx % 4 == 0:
        # an integer-valued point (k is kept small for conditioning)
        x = F.intify(x)
        x[case.n_out] = 1.0
    form = F.pick(rng)
    xv = F.variant(x, form)
    if xv is None:
        return
    feats = {'input_form': form, 'error_models': case.em_names}
    try:
        base = (ll(x.copy()), np.asarray(ll.compute_pointwise_ll(x.copy())),
                ll.evaluateS1(x.copy()))
        got = (ll(xv), np.asarray(ll.compute_pointwise_ll(xv)),
               ll.evaluateS1(xv))
    except Exception as e:      # noqa
        ctx.violation_exc('constructed_object_evaluates', e,
                          {'case': case.describe(), 'x': x, 'form': form},
                          feats)
        return
    ctx.count('input_forms_compared')
    ref = float(np.real(case.ref_total(x)))
    if not F.same(got, base) or (np.isfinite(ref) and not ctx.close(
            got[0], ref, rtol=1e-9, scale=abs(ref) + 10)):
        ctx.violation('same_numbers_same_result', 'input_form:' + form,
                      {'float64': base, form: got, 'reference': ref, 'x': x,
                       'case': case.describe()}, feats)


def _user_error_models(ctx, rng, case, x):
    """the error models arrive as ReducedErrorModels whose last parameter is
    fixed (a known assay noise); the likelihood is the sum of the densities
    under the error models it was constructed with - also after the user
    has re-used their error-model objects with other fixed values"""
    try:
        model = case.mechanistic_model()
        ems, keep, start = [], [], case.n_mech
        keep += list(range(case.n_mech))
        refix = []
        for o, name in enumerate(case.em_names):
            npar = D.ERROR_MODELS[name][0]
            em = chi.ReducedErrorModel(getattr(chi, name)())
            last = em.get_parameter_names()[-1]
            em.fix_parameters({last: float(x[start + npar - 1])})
            refix.append((em, last))
            ems.append(em)
            keep += list(range(start, start + npar - 1))
            start += npar
        ll = chi.LogLikelihood(
            model, ems if (case.n_out > 1 or rng.random() < 0.5) else ems[0],
            [y.copy() for y in case.obs], [t.copy() for t in case.times])
        xr = np.asarray(x)[keep]
        v1 = ll(xr)
        for em, last in refix:
            em.fix_parameters({last: float(rng.uniform(0.6, 0.9))})
        v2 = ll(xr)
        pw = ll.compute_pointwise_ll(xr)
    except Exception as e:      # noqa
        ctx.violation_exc('constructed_object_evaluates', e,
                          {'case': case.describe(),
                           'what': 'reduced error models'})
        return
    ctx.count('user_error_models_reused')
    ref = float(np.real(case.ref_total(x)))
    sc = abs(ref) + 1
    if not ctx.close(v1, ref, rtol=1e-9, scale=sc):
        ctx.violation('value_vs_bruteforce',
                      'reduced_error_models',
                      {'chi': v1, 'reference': ref,
                       'case': case.describe()})
    elif not (ctx.close(v2, ref, rtol=1e-9, scale=sc) and ctx.close(
            float(np.sum(pw)), ref, rtol=1e-9, scale=sc)):
        ctx.violation('value_vs_bruteforce',
                      'follows_later_changes_of_the_users_error_models',
                      {'at_construction': v1, 'after_the_user_refixed': v2,
                       'pointwise_sum': float(np.sum(pw)),
                       'reference': ref, 'case': case.describe()})


def _singular_elsewhere(ctx, rng, case, x):
    """a mechanistic model whose output is not finite at a time at which
    that output was NOT measured (a log-concentration before the dose, a
    ratio at t = 0): the entry belongs to no measurement, so total,
    pointwise values and gradient are those of the measurements"""
    if case.n_out < 2:
        return
    union = np.unique(np.concatenate([np.asarray(t, dtype=float)
                                      for t in case.times]))
    cands = []
    for o in range(case.n_out):
        free_t = [t for t in union if t not in set(np.asarray(
            case.times[o], dtype=float).tolist())]
        if free_t and len(case.times[o]):
            cands.append((o, free_t))
    if not cands:
        return
    o, free_t = cands[int(rng.integers(len(cands)))]
    value = [np.inf, -np.inf, np.nan][int(rng.integers(3))]
    try:
        model = toys.ToyMulti(case.n_out)
        model.singular = {o: (np.array(free_t), value)}
        ll = chi.LogLikelihood(
            model, [getattr(chi, nm)() for nm in case.em_names],
            [y.copy() for y in case.obs], [t.copy() for t in case.times])
        v = ll(x)
        pw = ll.compute_pointwise_ll(x)
        s1, g = ll.evaluateS1(x)
    except Exception as e:      # noqa
        ctx.violation_exc('constructed_object_evaluates', e,
                          {'case': case.describe(),
                           'what': 'output not finite at an unmeasured '
                                   'time'})
        return
    ctx.count('singular_unmeasured_entries')
    ref = float(np.real(case.ref_total(x)))
    g_ref = D.cstep_grad(lambda z: case.ref_total(z), np.asarray(x))
    sc = abs(ref) + 1
    gs = 1 + float(np.max(np.abs(g_ref)))
    if not (ctx.close(v, ref, rtol=1e-9, scale=sc) and
            ctx.close(float(np.sum(pw)), ref, rtol=1e-9, scale=sc) and
            ctx.close(s1, ref, rtol=1e-9, scale=sc) and
            ctx.close(np.asarray(g, dtype=float), g_ref, rtol=1e-7,
                      scale=gs)):
        ctx.violation('value_vs_bruteforce',
                      'unmeasured_entry_enters_the_score',
                      {'value': v, 'pointwise_sum': float(np.sum(pw)),
                       's1_score': s1, 'reference': ref, 'gradient': g,
                       'reference_gradient': g_ref, 'output': o,
                       'times': free_t, 'entry': repr(value),
                       'case': case.describe()})


def _jitter_times(ctx, case, idx):
    """time stamps that went through arithmetic (0.1 + 0.2 next to 0.3):
    some times are moved up by one unit in the last place, so that grids of
    different outputs (or ties within one) hold values that are nearly but
    not exactly equal; each measurement still belongs to its own time"""
    r = np.random.default_rng([idx, 77])
    moved = 0
    for t in case.times:
        for i in range(len(t)):
            up = np.nextafter(t[i], np.inf)
            if (i == len(t) - 1 or t[i + 1] >= up) and r.random() < 0.5:
                t[i] = up
                moved += 1
    if moved:
        ctx.count('cases_with_times_one_ulp_apart')


def toy_case(ctx, rng, idx):
    case = G.LLCase(rng)
    if idx % 6 == 5:
        _jitter_times(ctx, case, idx)
    ctx.case(case.signature(), case.nontrivial(), sample=case.describe())
    try:
        ll = case.build()
    except (ValueError, TypeError) as e:
        ctx.reject('constructor: ' + str(e)[:60])
        return
    ctx.count('constructed')
    x = case.point(rng)
    val = _compare(ctx, case, ll, x)
    if val is not None and idx % 3 == 1:
        # one work vector updated in place between evaluations (the same
        # mechanistic values with other error parameters, and vice versa)
        w = np.array(x, dtype=float)
        for part in (slice(case.n_mech, None), slice(0, case.n_mech)):
            w[part] *= 1 + 0.05 * rng.random(len(w[part]))
            ctx.count('in_place_updates')
            if _compare(ctx, case, ll, w, tag='buffer') is None:
                break
    _forms(ctx, rng, case, ll, x, idx)
    if val is not None and idx % 5 == 2:
        _user_error_models(ctx, rng, case, x)
    if val is not None and idx % 5 == 4:
        _singular_elsewhere(ctx, rng, case, x)
    # boundary: a non-positive scale scores -inf (oracle: only "-inf")
    if idx % 7 == 0 and not any(len(t) == 0 for t in case.times):
        xb = x.copy()
        j = int(rng.integers(case.n_mech, case.n_full))
        xb[j] = -xb[j] if idx % 2 else 0.0
        try:
            vb = ll(xb)
            ctx.count('boundary_evaluated')
            # only the output that owns parameter j needs observations
            owner, s = None, case.n_mech
            for o, nm in enumerate(case.em_names):
                npar = D.ERROR_MODELS[nm][0]
                if s <= j < s + npar:
                    owner = o
                s += npar
            if vb != -np.inf:
                ctx.violation('outside_support_scores_minus_inf',
                              'boundary_value',
                              {'value': vb, 'x': xb, 'owner': owner,
                               'case': case.describe()})
        except Exception as e:      # noqa
            ctx.violation_exc('constructed_object_evaluates', e,
                              {'case': case.describe(), 'x': xb})
    # posterior = prior + likelihood
    if idx % 3 == 0 and val is not None:
        prior = pints.ComposedLogPrior(*[
            pints.LogNormalLogPrior(float(np.log(v)), 0.5) for v in x])
        try:
            post = chi.LogPosterior(ll, prior)
            pv = post(x)
        except Exception as e:      # noqa
            ctx.violation_exc('constructed_object_evaluates', e,
                              {'case': case.describe(), 'what': 'posterior'})
            return
        ctx.count('posterior_compared')
        expected = float(prior(x)) + float(np.real(case.ref_total(x)))
        sc = abs(float(prior(x))) + abs(val) + 1
        if not ctx.close(pv, expected, rtol=1e-9, scale=sc):
            ctx.violation('posterior_is_prior_plus_likelihood',
                          'posterior_mismatch',
                          {'chi': pv, 'reference': expected,
                           'case': case.describe()})


# ------------------------------------------------------------ enumeration
_PTS = np.array([0.0, 1.0, 2.5, 4.0])
_GRIDS = [g for g in itertools.product(range(3), repeat=4)]   # 81 multisets


def _grid(mult):
    return np.concatenate(
        [np.full(m, _PTS[i]) for i, m in enumerate(mult)] + [np.array([])])


def enumerated_case(ctx, rng, idx):
    """all ordered pairs of grids over a 4-point pool, multiplicity 0-2"""
    i, j = divmod(idx % (81 * 81), 81)
    round_ = idx // (81 * 81)
    case = G.LLCase(rng, n_out=2, arrangement='random')
    pair = list(itertools.product(G.EM_CLASSES, repeat=2))[
        (idx + round_ * 5) % 16]
    case.em_names = list(pair)
    case.times = [_grid(_GRIDS[i]), _grid(_GRIDS[j])]
    case.arrangement = 'enumerated'
    _regen(case, rng)
    ctx.case(('enum', _GRIDS[i], _GRIDS[j], pair), case.nontrivial(),
             sample=case.describe())
    try:
        ll = case.build()
    except (ValueError, TypeError) as e:
        ctx.reject('constructor: ' + str(e)[:60])
        return
    ctx.count('constructed')
    _compare(ctx, case, ll, case.point(rng), tag='enum')


def enumerated3_case(ctx, rng, idx):
    """three outputs, every triple of subsets of the 4-point pool"""
    subsets = list(itertools.product(range(2), repeat=4))
    i, r = divmod(idx % 4096, 256)
    j, k = divmod(r, 16)
    case = G.LLCase(rng, n_out=3, arrangement='random')
    case.times = [_grid(subsets[i]), _grid(subsets[j]), _grid(subsets[k])]
    case.arrangement = 'enumerated3'
    _regen(case, rng)
    ctx.case(('enum3', i, j, k, tuple(case.em_names)), case.nontrivial(),
             sample=case.describe())
    try:
        ll = case.build()
    except (ValueError, TypeError) as e:
        ctx.reject('constructor: ' + str(e)[:60])
        return
    ctx.count('constructed')
    _compare(ctx, case, ll, case.point(rng), tag='enum')


def long_case(ctx, rng, idx):
    """long observation series whose noise scales are far from 1: totals of
    hundreds to thousands of nats (sums of log-scales beyond +-745) must
    still be the plain sum of the per-measurement log-densities"""
    n_out = int(rng.integers(1, 3))
    case = G.LLCase(rng, n_out=n_out, arrangement='random')
    case.em_names = [G.EM_CLASSES[(idx + o) % len(G.EM_CLASSES)]
                     for o in range(n_out)]
    lens = [int(rng.choice([300, 800, 2000, 5000])) for _ in range(n_out)]
    if n_out == 2 and rng.random() < 0.5:
        lens[1] = int(rng.integers(1, 40))
    tmax = float(rng.choice([4.0, 20.0]))
    case.times = [np.sort(rng.uniform(0, tmax, size=m)) for m in lens]
    case.arrangement = 'long'
    amp = float(rng.choice([1e-3, 1e-2, 1.0, 50.0, 500.0]))
    case.true = case.true.copy()
    case.true[:n_out] *= amp
    case.true[n_out + 1] *= amp
    _regen(case, rng)
    ctx.case(('long', tuple(case.em_names), tuple(lens), amp), True,
             sample=dict(case.describe(), times='omitted',
                         observations='omitted', lengths=lens, amp=amp))
    try:
        ll = case.build()
    except (ValueError, TypeError) as e:
        ctx.reject('constructor: ' + str(e)[:60])
        return
    ctx.count('constructed')
    ctx.count('long_series_cases')
    x = case.point(rng, spread=0.05)
    # additive noise scales follow the amplitude
    s = case.n_mech
    for nm in case.em_names:
        npar = D.ERROR_MODELS[nm][0]
        if nm == 'GaussianErrorModel' or npar == 2:
            x[s] *= amp
        s += npar
    val = _compare(ctx, case, ll, x, tag='long')
    if val is None:
        return
    try:
        score, _ = ll.evaluateS1(x)
    except Exception as e:      # noqa
        ctx.violation_exc('constructed_object_evaluates', e,
                          {'case': 'long', 'call': 'evaluateS1'})
        return
    ref = float(np.real(case.ref_total(x)))
    if not ctx.close(score, ref, rtol=1e-9, scale=abs(ref) + 10):
        ctx.violation('s1_score_vs_bruteforce', 'value_mismatch:s1_long',
                      {'chi': score, 'reference': ref, 'lengths': lens,
                       'amp': amp, 'error_models': case.em_names, 'x': x})


def _regen(case, rng):
    """regenerate error parameters / observations after editing the case"""
    n = case.n_out
    case.em_true = [rng.uniform(0.1, 0.5, size=D.ERROR_MODELS[nm][0])
                    for nm in case.em_names]
    case.obs = []
    for o in range(n):
        t = case.times[o]
        ybar = np.real(toys.toy_multi_ref(case.true, t, o, n))
        case.obs.append(ybar * np.exp(0.2 * rng.normal(size=len(t))))
    case.n_full = case.n_mech + sum(len(p) for p in case.em_true)
    case.free = np.ones(case.n_full, dtype=bool)


# ------------------------------------------------------------------ SBML
class _SbmlCase(object):
    """two-output library PK model; reference = fresh single-time solves"""

    def __init__(self, rng):
        from chi.library import ModelLibrary
        self.model = ModelLibrary().one_compartment_pk_model()
        self.model.set_administration('central', direct=bool(rng.integers(2)))
        self.model.set_dosing_regimen(
            dose=float(rng.uniform(1, 5)), start=float(rng.uniform(0, 1)),
            duration=float(rng.uniform(0.05, 0.5)),
            period=float(rng.uniform(1.5, 3)), num=int(rng.integers(1, 4)))
        self.outs = ['central.drug_amount', 'central.drug_concentration']
        self.n_out = int(rng.integers(1, 3))
        self.outs = self.outs[:self.n_out] if rng.random() < 0.5 \
            else self.outs[::-1][:self.n_out]
        self.model.set_outputs(self.outs)
        # (also: an output without measurements, or no measurement at all -
        # an individual who dropped out still has a likelihood, of value 0)
        self.arrangement = G.ARRANGEMENTS[int(rng.integers(9))]
        self.times = G.gen_grids(rng, self.n_out, self.arrangement)
        if rng.random() < 0.06:
            self.arrangement = 'all_empty'
            self.times = [np.array([]) for _ in range(self.n_out)]
        self.times = [t + 0.1 for t in self.times]
        self.em_names = [G.EM_CLASSES[int(rng.integers(4))]
                         for _ in range(self.n_out)]
        self.n_mech = self.model.n_parameters()
        names = self.model.parameters()
        self.true = np.array([
            {'central.drug_amount': rng.uniform(0.5, 3),
             'dose.drug_amount': rng.uniform(0.0, 1),
             'central.size': rng.uniform(1, 4),
             'dose.absorption_rate': rng.uniform(0.5, 2),
             'global.elimination_rate': rng.uniform(0.1, 0.8)}[n]
            for n in names])
        self.em_true = [rng.uniform(0.1, 0.5, size=D.ERROR_MODELS[nm][0])
                        for nm in self.em_names]
        self.obs = []
        for o in range(self.n_out):
            ybar = self._solve_each(self.true, o)
            self.obs.append(ybar * np.exp(0.2 * rng.normal(size=len(ybar))))
        self.n_full = self.n_mech + sum(len(p) for p in self.em_true)
        # the likelihood may be asked for the model's current outputs in
        # ANOTHER order (outputs=...): data, error models and parameters
        # follow the requested order, the user's model keeps its own
        self.outputs_arg = ['none', 'same', 'permuted'][int(rng.integers(3))]
        if self.outputs_arg == 'permuted' and self.n_out == 2:
            for attr in ('outs', 'times', 'em_names', 'em_true', 'obs'):
                setattr(self, attr, getattr(self, attr)[::-1])

    def _solve_each(self, p, o):
        # reference: a model that returns only this output, by name
        m = self.model.copy()
        m.set_outputs([self.outs[o]])
        out = []
        for t in self.times[o]:
            out.append(m.simulate(p, [t])[0, 0])
        return np.array(out)

    def build(self):
        ems = [getattr(chi, nm)() for nm in self.em_names]
        kw = {} if self.outputs_arg == 'none' else {
            'outputs': list(self.outs)}
        return chi.LogLikelihood(
            self.model, ems, [y.copy() for y in self.obs],
            [t.copy() for t in self.times], **kw)

    def ref_pointwise(self, x):
        out, s = [], self.n_mech
        for o in range(self.n_out):
            npar, f = D.ERROR_MODELS[self.em_names[o]]
            p = x[s:s + npar]
            s += npar
            ybar = self._solve_each(x[:self.n_mech], o)
            out.append(f(self.obs[o], ybar, p))
        return out

    def point(self, rng):
        x = np.concatenate([self.true] + self.em_true)
        return x * np.exp(0.1 * rng.normal(size=len(x)))

    def describe(self):
        return {'model': 'one_compartment_pk_model', 'outputs': self.outs,
                'administration': self.model.administration(),
                'outputs_argument': self.outputs_arg,
                'error_models': self.em_names, 'arrangement': self.arrangement,
                'times': [t.tolist() for t in self.times]}

    def nontrivial(self):
        return G.LLCase.nontrivial(self)


def sbml_case(ctx, rng, idx):
    case = _SbmlCase(rng)
    ctx.case(('sbml', tuple(case.outs), tuple(n[:3] for n in case.em_names),
              G.overlap_signature(case.times)), case.nontrivial(),
             sample=case.describe())
    try:
        ll = case.build()
    except (ValueError, TypeError) as e:
        ctx.reject('constructor: ' + str(e)[:60])
        return
    ctx.count('constructed')
    ctx.count('sbml_cases')
    _compare(ctx, case, ll, case.point(rng), rtol=1e-6, tag='sbml')


FAMILIES = [
    Family('toy', toy_case, quick=3000, thorough=60000),
    Family('enumerated', enumerated_case, quick=6561, thorough=6561 * 16),
    Family('enumerated3', enumerated3_case, quick=512, thorough=4096),
    Family('sbml', sbml_case, quick=96, thorough=2000),
    Family('long', long_case, quick=160, thorough=1600),
]
