"""
C15 - predictive models sample the stated generative process and label the
result correctly.  Oracle: PIT/KS against the reference densities; hooks on
the inner individual-level PredictiveModel.sample record the parameter vector
of every virtual patient / posterior draw / prior draw (tested against the
population density, the unique-valued posterior dataset, the prior); exact
binomial test for model-averaging weights; table vs array form of the same
seeded call.
"""
import functools

import numpy as np
import pandas as pd
import pints
import xarray as xr
from scipy import stats

from harness.bootstrap import load_chi
from harness.core import Family
from harness import gen_pop as GP
from harness import toys
from harness.oracle import densities as D
from harness.oracle import stats as S
from harness.oracle.hierarchy import Hierarchy
from checks import c06

chi = load_chi()

PROP = 'C15'
TITLE = 'predictive models sample the stated generative process, labelled'
RULE = (
    'individual family: toy / library PK models x error-model assignments, '
    'unsorted times, table vs array form; population family: population '
    'compositions (pooled, heterogeneous, non-centred, covariate parts), '
    'n_samples different from the n_ids the population model was last given, '
    'covariate rows / matrix, inner-model tap; posterior family: unique-'
    'valued posterior datasets (2-4 chains, 3-40 draws, 1-4 individuals); '
    'prior and PAM families; signature = (family, model code, n_samples '
    'bucket, flags); non-trivial = every case')
ASSUMPTIONS = [
    'reference densities of C04 / C05; KS with DKW bound, family-wise false '
    'alarm <= 1e-9 per run; chi samplers are seeded',
    'the inner-model tap wraps the public PredictiveModel.sample at class '
    'level',
]
ANCHORS = [
    'chi._predictive_models.PredictiveModel.sample',
    'chi._predictive_models.PopulationPredictiveModel.sample',
    'chi._predictive_models.PosteriorPredictiveModel.sample',
    'chi._predictive_models.PriorPredictiveModel.sample',
    'chi._predictive_models.PAMPredictiveModel.sample',
]
REQUIRED = {'ks_tests': 60, 'tables_checked': 60,
            'patients_observed': 2000, 'posterior_draws_identified': 200,
            'stale_n_ids_cases': 10, 'pam_calls': 5, 'prior_draws': 500}

EMS = sorted(D.ERROR_MODELS)
_TAP = {'on': False, 'calls': []}
_PATCHED = False


def _patch():
    global _PATCHED
    if _PATCHED:
        return
    _PATCHED = True
    orig = chi.PredictiveModel.sample

    @functools.wraps(orig)
    def wrapped(self, parameters, times, *a, **k):
        out = orig(self, parameters, times, *a, **k)
        if _TAP['on'] and type(self) is chi.PredictiveModel:
            _TAP['calls'].append((np.array(parameters, dtype=float),
                                  out if isinstance(out, np.ndarray)
                                  else None))
        return out
    chi.PredictiveModel.sample = wrapped


def _tap(fn):
    _TAP['calls'] = []
    _TAP['on'] = True
    try:
        out = fn()
    finally:
        _TAP['on'] = False
    return out, list(_TAP['calls'])


def _ks(ctx, u, label, feats, detail):
    return c06._ks(ctx, u, label, feats, detail)


def _predictive(rng, n_out=None, sbml=False):
    if sbml:
        from chi.library import ModelLibrary
        m = ModelLibrary().one_compartment_pk_model()
        m.set_administration('central', direct=bool(rng.integers(2)))
        m.set_dosing_regimen(dose=2.0, start=0.3, duration=0.2, period=1.0,
                             num=int(rng.integers(1, 4)))
        n_out = int(rng.integers(1, 3))
        outs_arg = None
        if rng.random() < 0.5:
            m.set_outputs(['central.drug_concentration',
                           'central.drug_amount'][:n_out])
        else:
            # the outputs are named when the predictive model is created;
            # the user's model may already return the same outputs in
            # another order
            outs_arg = ['central.drug_amount',
                        'central.drug_concentration'][:n_out]
            if n_out == 2 and rng.random() < 0.6:
                m.set_outputs(outs_arg[::-1])
    else:
        n_out = n_out or int(rng.integers(1, 4))
        m = toys.ToyMulti(n_out)
        outs_arg = None
    ems = [EMS[int(rng.integers(4))] for _ in range(n_out)]
    if rng.random() < 0.25:
        # the user's model may have its sensitivities switched on (e.g.
        # after a gradient-based inference): sampling needs the outputs only
        m.enable_sensitivities(True)
    if outs_arg is not None:
        pm = chi.PredictiveModel(m, [getattr(chi, e)() for e in ems],
                                 outputs=outs_arg)
        m.set_outputs(outs_arg)         # the harness's reference model
    else:
        pm = chi.PredictiveModel(m, [getattr(chi, e)() for e in ems])
    m.enable_sensitivities(False)       # the harness's reference model
    n_mech = m.n_parameters()
    if sbml:
        mech = rng.uniform(0.5, 1.5, n_mech)
    else:
        mech = toys.toy_multi_params(rng, n_out)
    err = np.concatenate([rng.uniform(0.1, 0.4, D.ERROR_MODELS[e][0])
                          for e in ems])
    return pm, m, ems, np.concatenate([mech, err])


def _check_table(ctx, df, arr, times_sorted, outs, feats, tag,
                 n_samples, extra_obs=()):
    """table rows hold exactly the array entries under their labels"""
    ctx.count('tables_checked')
    prob = []
    meas = df[df['Observable'].isin(outs)]
    if len(meas) != len(outs) * len(times_sorted) * n_samples:
        prob.append('%d measurement rows, expected %d' % (
            len(meas), len(outs) * len(times_sorted) * n_samples))
    else:
        for o, name in enumerate(outs):
            for s in range(n_samples):
                rows = meas[(meas['Observable'] == name) &
                            (meas['ID'] == s + 1)]
                t = rows['Time'].to_numpy(dtype=float)
                v = rows['Value'].to_numpy(dtype=float)
                if not np.array_equal(t, times_sorted):
                    prob.append('times of (%s, ID %d) are %s' % (
                        name, s + 1, t.tolist()))
                    break
                if arr is not None and not np.array_equal(v, arr[o, :, s]):
                    prob.append('values of (%s, ID %d) differ from the '
                                'array form' % (name, s + 1))
                    break
            if prob:
                break
    if prob:
        ctx.violation('table_labels_match_array', 'table_mismatch:' + tag,
                      {'problems': prob, 'case': feats}, feats)


def individual_case(ctx, rng, idx):
    sbml = idx % 4 == 0
    pm, m, ems, x = _predictive(rng, sbml=sbml)
    n_out = len(ems)
    times = rng.permutation(np.array([0.4, 0.9, 1.3, 2.2, 3.1]))[
        :int(rng.integers(1, 5))]
    ts = np.sort(times)
    n = 3000 if ctx.tier == 'quick' else 30000
    seed = int(rng.integers(1, 2 ** 31))
    feats = {'family': 'individual', 'sbml': sbml, 'error_models': ems,
             'times': times}
    ctx.case(('individual', sbml, tuple(e[:3] for e in ems), len(times)),
             True, sample=dict(feats, parameters=x))
    x.setflags(write=False)
    times.setflags(write=False)
    try:
        arr = pm.sample(x, times, n_samples=n, seed=seed, return_df=False)
    except Exception as e:      # noqa
        ctx.violation_exc('sample_raises', e, {'case': feats}, feats)
        return
    if arr.shape != (n_out, len(times), n):
        ctx.violation('sample_shape', 'sample_shape:individual',
                      {'shape': arr.shape}, feats)
        return
    mm = m.copy()
    ybar = np.asarray(mm.simulate(x[:m.n_parameters()], ts))
    start = m.n_parameters()
    for o, e in enumerate(ems):
        npar = D.ERROR_MODELS[e][0]
        p = x[start:start + npar]
        start += npar
        for j in range(len(ts)):
            dist = c06._em_cdf(e, p, ybar[o, j])
            ok = _ks(ctx, dist.cdf(arr[o, j]), e + ':predictive',
                     dict(feats, output=o, time=float(ts[j])),
                     {'output': o, 'time': float(ts[j]),
                      'model_output': float(ybar[o, j]), 'parameters': p})
            if not ok and e == 'ConstantAndMultiplicativeGaussianErrorModel':
                alt = stats.norm(ybar[o, j], np.sqrt(
                    p[0] ** 2 + (p[1] * ybar[o, j]) ** 2))
                d_alt = S.ks_uniform(alt.cdf(arr[o, j]))
                ctx.violations[-1]['detail']['matches_quadrature_model'] = \
                    bool(d_alt <= S.ks_crit(n))
    # table form of the same seeded call
    k = 3
    # (boolean flags may be numpy booleans - what np.any(...) or a
    # comparison of numpy scalars returns)
    flag = [True, False, np.True_, np.False_][int(rng.integers(4))]
    arr_k = pm.sample(x, times, n_samples=k, seed=seed,
                      return_df=[False, np.False_][int(rng.integers(2))])
    df = pm.sample(x, times, n_samples=k, seed=seed, include_regimen=flag)
    outs = pm.get_output_names()
    if not isinstance(arr_k, np.ndarray):
        ctx.violation('table_labels_match_array', 'array_form_not_returned',
                      {'type': type(arr_k).__name__}, feats)
        return
    _check_table(ctx, df, arr_k, ts, outs, feats, 'individual', k)
    if sbml:
        want = pm.get_dosing_regimen(float(np.max(ts)))
        n_want = 0 if (want is None or not bool(flag)) else len(want) * k
        rows = df[df['Dose'].notna()] if 'Dose' in df.columns else []
        ctx.count('dose_row_checks')
        if len(rows) != n_want:
            ctx.violation('table_dose_rows', 'dose_rows:individual',
                          {'rows': len(rows), 'expected': n_want,
                           'include_regimen': repr(flag)}, feats)


def population_case(ctx, rng, idx):
    _patch()
    pm, m, ems, x_ind = _predictive(rng, n_out=int(rng.integers(1, 3)))
    n_dim = pm.n_parameters()
    n_last = int(rng.integers(1, 5))         # n_ids last given to the model
    leaves = GP.random_composition(rng, n_last, total_dim=n_dim,
                                   kinds='GLTPH', p_cov=0.3, cov_kinds='GLTP')
    # all individual parameters must be positive: log-normal for scales
    for i, l in enumerate(leaves):
        if l.kind == 'G':
            leaves[i] = GP.make_leaf('L', l.n_dim, l.centered,
                                     l.cov['n_cov'] if l.cov else 0,
                                     None, n_last)
    t_mixed = idx % 8 == 5
    if t_mixed:
        # one truncated Gaussian over all parameters, whose dimensions are
        # in different regimes (means far above zero next to means close to
        # zero)
        leaves = [GP.make_leaf('T', n_dim)]
    h = Hierarchy(leaves, n_last)
    codes = [GP.leaf_code(l) for l in leaves]
    pop = GP.build_chi(leaves, n_last)
    pop.set_dim_names(pm.get_parameter_names())
    stale = idx % 2 == 0
    if stale:
        pop.set_n_ids(n_last)        # as a likelihood / controller would
    ppm = chi.PopulationPredictiveModel(pm, pop)
    top = np.concatenate([GP.leaf_top(rng, l, n_last) for l in leaves])
    if t_mixed:
        sd_ = rng.uniform(0.3, 1.0, n_dim)
        ratio = rng.uniform(0.0, 1.5, n_dim)
        far = rng.permutation(n_dim) < int(rng.integers(1, n_dim))
        ratio[far] = rng.uniform(10, 25, int(np.sum(far)))
        top = np.concatenate([sd_ * ratio, sd_])
    n = [1, 2, 3, 7, 40, 300][int(rng.integers(6))]
    if t_mixed:
        n = max(n, 40)
    if n == n_last and stale:
        n += 1
    times = rng.permutation(np.array([0.4, 0.9, 1.3, 2.2]))[
        :int(rng.integers(1, 4))]
    ts = np.sort(times)
    cov = None
    cov_mode = None
    if h.n_cov:
        cov_mode = ['row', 'matrix'][int(rng.integers(2))]
        cov = rng.uniform(-1, 1, size=(1 if cov_mode == 'row' else n,
                                       h.n_cov))
    seed = int(rng.integers(1, 2 ** 31))
    feats = {'family': 'population', 'leaves': codes,
             'kinds': sorted(set(l.kind for l in leaves)),
             'n_samples': n, 'n_ids_last_set': n_last if stale else 1,
             'n_heterogeneous_rows': n_last,
             'covariates': cov_mode, 'error_models': ems}
    ctx.case(('population', '+'.join(codes), min(n, 8), stale, cov_mode),
             True, sample=dict(feats, parameters=top))
    if stale:
        ctx.count('stale_n_ids_cases')
    kw = {}
    if h.n_cov:
        kw['covariates'] = cov[0] if cov_mode == 'row' else cov
    try:
        arr, calls = _tap(lambda: ppm.sample(
            top, times, n_samples=n, seed=seed, return_df=False, **kw))
    except Exception as e:      # noqa
        ctx.violation_exc('sample_raises', e, {'case': feats}, feats)
        return
    if arr.shape != (len(ems), len(times), n) or np.any(np.isnan(arr)):
        ctx.violation('sample_shape', 'sample_shape:population',
                      {'shape': arr.shape, 'nan': bool(np.any(np.isnan(arr)))},
                      feats)
        return
    if len(calls) != n:
        ctx.violation('one_virtual_patient_per_sample', 'patient_count',
                      {'inner_calls': len(calls), 'n_samples': n}, feats)
        return
    ctx.count('patients_observed', n)
    patients = np.array([c[0] for c in calls])
    # returned column i is the measurement drawn for patient i
    for i in (0, n - 1):
        inner = calls[i][1]
        if inner is None or not np.array_equal(arr[:, :, i], inner[:, :, 0]):
            ctx.violation('measurement_belongs_to_patient',
                          'column_patient_mismatch', {'sample': i}, feats)
            break
    # patients follow the population density (given the covariates)
    covn = None if cov is None else np.broadcast_to(cov, (n, h.n_cov))
    it = idim = ic = 0
    for l in leaves:
        nt = l.n_top(n_last)
        ltop = top[it:it + nt]
        lcov = None
        if l.cov:
            lcov = covn[:, ic:ic + l.n_cov()]
            ic += l.n_cov()
        for d in range(l.n_dim):
            col = patients[:, idim + d]
            if l.kind == 'P':
                th = np.real(l.vartheta(ltop, lcov, n))
                if not np.array_equal(col, th[:, 0, d]):
                    ctx.violation('patients_follow_population_model',
                                  'pooled_patient_not_parameter',
                                  {'dim': idim + d, 'values': col[:5],
                                   'parameter': th[:5, 0, d]}, feats)
                continue
            if l.kind == 'H':
                rows = ltop[:n_last * l.n_dim].reshape(n_last, l.n_dim)
                if d == 0:
                    block = patients[:, idim:idim + l.n_dim]
                    ok = all(any(np.array_equal(b, r) for r in rows)
                             for b in block[:50])
                    if not ok:
                        ctx.violation('patients_follow_population_model',
                                      'heterogeneous_patient_not_a_row',
                                      {'dim': idim}, feats)
                continue
            # support: log-normal and truncated Gaussian patients are
            # positive whatever the sample size
            if l.centered and np.any(col < 0):
                ctx.violation('patients_follow_population_model',
                              'patient_outside_support:' + l.kind,
                              {'dim': idim + d, 'min': float(col.min()),
                               'n_negative': int(np.sum(col < 0))}, feats)
                continue
            if n < 300:
                continue
            th = np.real(l.vartheta(ltop, lcov, n))
            mu, sd = th[:, 0, d], th[:, 1, d]
            if l.kind == 'L':
                u = stats.norm.cdf(np.log(np.maximum(col, 1e-300)), mu, sd)
            else:
                a = (0 - mu) / sd
                u = stats.truncnorm.cdf(col, a, np.inf, loc=mu, scale=sd)
            _ks(ctx, u, 'patients:' + GP.leaf_code(l).rstrip('0123456789'),
                dict(feats, dim=idim + d), {'dim': idim + d})
        it += nt
        idim += l.n_dim
    # table form
    k = min(n, 3)
    kwk = dict(kw)
    if h.n_cov and cov_mode == 'matrix':
        kwk['covariates'] = cov[:k]
    arr_k = ppm.sample(top, times, n_samples=k, seed=seed, return_df=False,
                       **kwk)
    df = ppm.sample(top, times, n_samples=k, seed=seed, **kwk)
    _check_table(ctx, df, arr_k, ts, ppm.get_output_names(), feats,
                 'population', k)
    if h.n_cov:
        names = pop.get_covariate_names()
        ck = np.broadcast_to(kwk['covariates'] if cov_mode == 'matrix'
                             else cov, (k, h.n_cov))
        for j, name in enumerate(names):
            rows = df[df['Observable'] == name]
            got = rows.sort_values('ID')['Value'].to_numpy(dtype=float)
            if len(set(names)) == len(names) and (
                    len(got) != k or not np.array_equal(got, ck[:, j])):
                ctx.violation('table_covariate_rows', 'covariate_rows',
                              {'covariate': name, 'rows': got,
                               'expected': ck[:, j]}, feats)


def _posterior_dataset(rng, names, n_chains, n_draws, ids, pop_names=()):
    """unique value per (parameter, chain, draw, individual)"""
    data = {}
    code = {}
    for p, name in enumerate(names):
        if name in pop_names:
            v = np.empty((n_chains, n_draws))
            for c in range(n_chains):
                for d in range(n_draws):
                    v[c, d] = 0.2 + 1e-1 * p + 1e-3 * c + 1e-5 * d
            data[name] = (('chain', 'draw'), v)
        else:
            v = np.empty((n_chains, n_draws, len(ids)))
            for c in range(n_chains):
                for d in range(n_draws):
                    for i in range(len(ids)):
                        v[c, d, i] = 0.2 + 1e-1 * p + 1e-3 * c + 1e-5 * d \
                            + 1e-7 * (i + 1)
            data[name] = (('chain', 'draw', 'individual'), v)
    return xr.Dataset(data, coords={
        'chain': np.arange(n_chains), 'draw': np.arange(n_draws),
        'individual': list(ids)})


def posterior_case(ctx, rng, idx):
    _patch()
    pm, m, ems, x = _predictive(rng, n_out=int(rng.integers(1, 3)))
    names = pm.get_parameter_names()
    n_chains = int(rng.integers(2, 5))
    n_draws = int(rng.integers(3, 41))
    ids = ['ind %d' % i for i in range(int(rng.integers(1, 5)))]
    if rng.random() < 0.25:
        # (individuals labelled by integers, e.g. datasets of individual
        # posteriors joined along an integer index)
        ids = [3 * i + 1 for i in range(len(ids))]
    # the posterior variable that feeds model parameter p is var_names[p]
    # (its values encode p); the map may rename, exchange or shift names, so
    # that the posterior name of one parameter is the model name of another
    map_kind = ['none', 'rename', 'exchange', 'shift', 'none'][idx % 5]
    var_names = list(names)
    if map_kind == 'rename':
        for j in rng.permutation(len(names))[:int(rng.integers(
                1, len(names) + 1))]:
            var_names[j] = 'posterior of ' + names[j]
    elif map_kind == 'exchange':
        perm = rng.permutation(len(names))
        var_names = [names[j] for j in perm]
    elif map_kind == 'shift':
        k = int(rng.integers(2, len(names) + 1))
        sel = list(rng.permutation(len(names))[:k])
        for a, b in zip(sel[:-1], sel[1:]):
            var_names[a] = names[b]
        var_names[sel[-1]] = 'fresh name'
    items = [(names[j], var_names[j]) for j in range(len(names))
             if var_names[j] != names[j]]
    if map_kind != 'none' and rng.random() < 0.3:
        items.append(('not a model parameter', 'anything'))
    param_map = dict(items[j] for j in rng.permutation(len(items)))
    ds = _posterior_dataset(rng, var_names, n_chains, n_draws, ids)
    # shuffle the variable order of the dataset
    ds = ds[[var_names[i] for i in rng.permutation(len(names))]]
    who = ids[int(rng.integers(len(ids)))]
    arg = who if rng.random() < 0.8 else None
    # the dataset may have been reduced to one individual beforehand, the
    # usual xarray ways (the selected ID stays as a scalar coordinate, as a
    # dimension of length one, or is dropped)
    pre = ['no', 'no', 'sel_scalar', 'sel_list', 'isel_drop'][
        int(rng.integers(5))]
    if pre == 'sel_scalar':
        ds = ds.sel(individual=who)
    elif pre == 'sel_list':
        ds = ds.sel(individual=[who])
    elif pre == 'isel_drop':
        ds = ds.isel(individual=ids.index(who), drop=True)
    if arg is None and pre == 'no':
        who = ids[0]
    try:
        ppm = chi.PosteriorPredictiveModel(pm, ds, param_map) \
            if param_map or rng.random() < 0.5 else \
            chi.PosteriorPredictiveModel(pm, ds)
    except Exception as e:      # noqa
        ctx.violation_exc('construction_raises', e,
                          {'param_map': param_map, 'names': names},
                          {'family': 'posterior', 'map': map_kind})
        return
    ctx.count('param_map_' + map_kind)
    n = int(rng.integers(1, 30))
    times = rng.permutation(np.array([0.4, 0.9, 1.3, 2.2]))[
        :int(rng.integers(1, 4))]
    seed = int(rng.integers(1, 2 ** 31))
    feats = {'family': 'posterior', 'n_chains': n_chains,
             'n_draws': n_draws, 'n_individuals': len(ids),
             'individual': arg, 'n_samples': n, 'map': map_kind,
             'param_map': param_map, 'preselected': pre}
    ctx.case(('posterior', n_chains, min(n_draws, 8), len(ids), arg is None,
              map_kind, pre), True, sample=feats)
    try:
        df, calls = _tap(lambda: ppm.sample(times, n_samples=n,
                                            individual=arg, seed=seed))
    except Exception as e:      # noqa
        ctx.violation_exc('sample_raises', e, {'case': feats}, feats)
        return
    if len(calls) != n:
        ctx.violation('one_draw_per_sample', 'posterior_call_count',
                      {'inner_calls': len(calls), 'n_samples': n}, feats)
        return
    i_who = ids.index(who)
    for vec, _ in calls:
        ctx.count('posterior_draws_identified')
        # decode (chain, draw, individual) of every entry
        decoded = set()
        for p, val in enumerate(vec):
            r = val - 0.2 - 1e-1 * p
            c = int(round(r / 1e-3 - 0.49)) if r > 0 else -1
            c = int(np.floor(r / 1e-3 + 1e-6))
            r -= 1e-3 * c
            d = int(np.floor(r / 1e-5 + 1e-6))
            r -= 1e-5 * d
            i = int(round(r / 1e-7)) - 1
            decoded.add((c, d, i))
        if len(decoded) != 1:
            ctx.violation('draw_is_one_joint_posterior_row',
                          'marginal_instead_of_joint_draw',
                          {'decoded': sorted(decoded), 'vector': vec}, feats)
            break
        c, d, i = decoded.pop()
        if i != i_who or not (0 <= c < n_chains and 0 <= d < n_draws):
            ctx.violation('draw_is_one_joint_posterior_row',
                          'draw_of_wrong_individual',
                          {'decoded': (c, d, i), 'expected_individual':
                           i_who}, feats)
            break
    _check_table(ctx, df, None, np.sort(times), pm.get_output_names(),
                 feats, 'posterior', n)
    # all (chain, draw) rows can be reached
    if idx % 10 == 0:
        big, calls = _tap(lambda: ppm.sample(
            [1.0], n_samples=40 * n_chains * min(n_draws, 6),
            individual=who, seed=seed + 1))
        seen = set(round(float(v[0][0]), 9) for v in calls)
        ctx.count('posterior_reach_checks')
        if len(seen) < 0.5 * min(n_chains * n_draws, len(calls)):
            ctx.violation('draw_is_one_joint_posterior_row',
                          'few_distinct_posterior_rows',
                          {'distinct': len(seen),
                           'available': n_chains * n_draws}, feats)


def prior_case(ctx, rng, idx):
    _patch()
    pm, m, ems, x = _predictive(rng, n_out=1)
    n_par = pm.n_parameters()
    mus = rng.uniform(-0.5, 0.5, n_par)
    prior = pints.ComposedLogPrior(*[
        pints.LogNormalLogPrior(float(mu), 0.3) for mu in mus])
    ppm = chi.PriorPredictiveModel(pm, prior)
    n = 600
    seed = int(rng.integers(1, 2 ** 31))
    feats = {'family': 'prior', 'n_samples': n}
    ctx.case(('prior', n_par, idx % 20), True, sample=feats)
    try:
        df, calls = _tap(lambda: ppm.sample([0.5, 1.5], n_samples=n,
                                            seed=seed))
    except Exception as e:      # noqa
        ctx.violation_exc('sample_raises', e, {'case': feats}, feats)
        return
    if len(calls) != n:
        ctx.violation('one_draw_per_sample', 'prior_call_count',
                      {'inner_calls': len(calls)}, feats)
        return
    ctx.count('prior_draws', n)
    vecs = np.array([c[0] for c in calls])
    for p in range(n_par):
        u = stats.norm.cdf(np.log(vecs[:, p]), mus[p], 0.3)
        _ks(ctx, u, 'prior_draws', dict(feats, dim=p), {'dim': p})
    _check_table(ctx, df, None, np.array([0.5, 1.5]),
                 pm.get_output_names(), feats, 'prior', n)


def pam_case(ctx, rng, idx):
    _patch()
    pm, m, ems, x = _predictive(rng, n_out=1)
    names = pm.get_parameter_names()
    k = int(rng.integers(2, 5))
    models = []
    for j in range(k):
        ds = _posterior_dataset(rng, names, 2, 5, ['a', 'b'])
        ds = ds + 10.0 * j          # model j has values in [10 j, 10 j + 1)
        models.append(chi.PosteriorPredictiveModel(pm, ds))
    w = rng.uniform(0.2, 1.0, size=k)
    mode = ['plain', 'zero_weight', 'few_samples'][idx % 3]
    if mode == 'zero_weight':
        w[int(rng.integers(0, k - 1))] = 0.0     # not the last model
    pam = chi.PAMPredictiveModel(models, w)
    p = w / w.sum()
    seed = int(rng.integers(1, 2 ** 31))
    feats = {'family': 'pam', 'weights': p, 'mode': mode}
    ctx.case(('pam', k, mode, idx % 10), True, sample=feats)
    which = []
    try:
        if mode == 'few_samples':
            # many calls with 1-3 samples each: most models get no draw
            for c in range(150):
                n_c = int(rng.integers(1, 4))
                df, calls = _tap(lambda: pam.sample(
                    [1.0, 2.0], n_samples=n_c, individual='a',
                    seed=seed + c))
                if len(calls) != n_c:
                    ctx.violation('one_draw_per_sample', 'pam_call_count',
                                  {'inner_calls': len(calls),
                                   'n_samples': n_c}, feats)
                    return
                which += [int(c_[0][0] // 10) for c_ in calls]
        else:
            n = 400
            df, calls = _tap(lambda: pam.sample(
                [1.0, 2.0], n_samples=n, individual='a', seed=seed))
            if len(calls) != n:
                ctx.violation('one_draw_per_sample', 'pam_call_count',
                              {'inner_calls': len(calls)}, feats)
                return
            which = [int(c_[0][0] // 10) for c_ in calls]
            ids = sorted(df['ID'].unique())
            if ids != list(range(1, n + 1)):
                ctx.violation('table_labels_match_array', 'pam_sample_ids',
                              {'n_ids': len(ids), 'expected': n}, feats)
    except Exception as e:      # noqa
        ctx.violation_exc('sample_raises', e, {'case': feats}, feats)
        return
    ctx.count('pam_calls')
    which = np.array(which)
    n = len(which)
    for j in range(k):
        cnt = int(np.sum(which == j))
        ctx.count('binomial_tests')
        if (p[j] == 0 and cnt > 0) or not S.binom_tail_ok(cnt, n,
                                                          float(p[j])):
            ctx.violation('models_chosen_with_stated_weights',
                          'pam_weights:' + mode,
                          {'model': j, 'count': cnt, 'n': n,
                           'weight': float(p[j]),
                           'counts': [int(np.sum(which == q))
                                      for q in range(k)]}, feats)
            return


def covariate_rows_case(ctx, rng, idx):
    """posterior / prior predictive models over a population predictive
    model with covariates of the documented shape (n_samples, n_cov): sample
    k is generated for covariate row k.  Oracle: all dimensions pooled (one
    covariate-dependent), tiny noise, so that the value of every sample is
    determined by its own covariate row."""
    which = ['posterior', 'prior', 'population'][idx % 3]
    # the covariate-dependent dimension: pooled, or a centred model with a
    # tiny scale (its mean / log-mean depends on the covariates)
    inner = 'PGLT'[(idx // 3) % 4]
    n = int(rng.integers(2, 7))
    n_cov = int(rng.integers(1, 3))
    pm = chi.PredictiveModel(toys.ToyMulti(1), [chi.GaussianErrorModel()])
    under = {'P': chi.PooledModel, 'G': chi.GaussianModel,
             'L': chi.LogNormalModel, 'T': chi.TruncatedGaussianModel}[
                 inner]()
    cpm = chi.CovariatePopulationModel(
        under, chi.LinearCovariateModel(n_cov=n_cov))
    if inner != 'P':
        cpm.set_population_parameters([[0, 0]])
    # (a second covariate-dependent sub-model with its own covariate
    # columns in every second case: the rate constant k)
    two = (idx // 12) % 2 == 1
    n_cov2 = int(rng.integers(1, 3)) if two else 0
    if two:
        cpm2 = chi.CovariatePopulationModel(
            chi.GaussianModel(), chi.LinearCovariateModel(n_cov=n_cov2))
        cpm2.set_population_parameters([[0, 0]])
        pop = chi.ComposedPopulationModel(
            [cpm, cpm2, chi.PooledModel(n_dim=2)])
    else:
        pop = chi.ComposedPopulationModel([cpm, chi.PooledModel(n_dim=3)])
    pop.set_dim_names(pm.get_parameter_names())
    ppm = chi.PopulationPredictiveModel(pm, pop)
    names = ppm.get_parameter_names()
    a0, k_, b_, sig = 2.0, 0.3, 0.4, 1e-4
    beta2 = rng.uniform(0.05, 0.2, size=n_cov2)
    beta = rng.uniform(5, 20, size=n_cov)
    if inner == 'L':
        beta = rng.uniform(0.3, 1.0, size=n_cov)
    base = {'P': [a0], 'G': [a0, 1e-4], 'T': [a0, 1e-4],
            'L': [float(np.log(a0)), 1e-5]}[inner]
    values = base + list(beta) + ([k_, 1e-7] if two else [k_]) + \
        list(beta2) + [b_, sig]
    if len(names) != len(values):
        ctx.reject('unexpected parameter layout')
        return
    cov = rng.uniform(0, 3, size=(n, n_cov + n_cov2))
    cov_arg = cov if rng.random() < 0.5 else cov.tolist()
    times = np.array([0.5, 1.5])
    feats = {'family': 'covariate_rows', 'model': which, 'n_samples': n,
             'n_cov': n_cov, 'covariate_dependent_model': inner}
    ctx.case(('covariate_rows', which, inner, n, n_cov), True,
             sample=dict(feats, covariates=cov))
    try:
        if which == 'posterior':
            data = {nm: (('chain', 'draw'), np.full((2, 3), v) * (
                1 + 1e-9 * rng.normal(size=(2, 3))))
                for nm, v in zip(names, values)}
            ds = xr.Dataset(data, coords={'chain': [0, 1],
                                          'draw': [0, 1, 2]})
            model = chi.PosteriorPredictiveModel(ppm, ds)
        elif which == 'prior':
            model = chi.PriorPredictiveModel(ppm, pints.ComposedLogPrior(*[
                pints.GaussianLogPrior(v, 1e-6 * max(abs(v), 1e-3))
                for v in values]))
        if which == 'population':
            df = ppm.sample(values, times, n_samples=n,
                            seed=int(rng.integers(1000)),
                            covariates=cov_arg)
            df = df[df['Observable'] == pm.get_output_names()[0]]
        else:
            df = model.sample(times, n_samples=n,
                              seed=int(rng.integers(1000)),
                              covariates=cov_arg)
    except Exception as e:      # noqa
        ctx.violation_exc('sample_raises', e, {'case': feats}, feats)
        return
    ctx.count('covariate_row_samples', n)
    ids = sorted(df['ID'].unique())
    if len(ids) != n:
        ctx.violation('one_virtual_patient_per_sample', 'patient_count',
                      {'ids': len(ids), 'n_samples': n}, feats)
        return
    for j, _id in enumerate(ids):
        rows = df[df['ID'] == _id].sort_values('Time')
        def a_of(row):
            lin = float(np.sum(beta * row[:n_cov]))
            return float(np.exp(np.log(a0) + lin)) if inner == 'L' \
                else a0 + lin
        a = a_of(cov[j])
        k_j = k_ + float(np.sum(beta2 * cov[j][n_cov:]))
        want = a * np.exp(-k_j * times) + b_ * times
        got = rows['Value'].to_numpy(dtype=float)
        if got.shape != want.shape or np.max(np.abs(got - want) / (
                1 + np.abs(want))) > 0.01:
            ctx.violation('sample_follows_its_own_covariates',
                          'covariate_row_ignored:' + which,
                          {'sample': j, 'covariates': cov[j],
                           'values': got, 'expected': want,
                           'two_covariate_sub_models': two,
                           'expected_for_row_0':
                               a_of(cov[0]) *
                               np.exp(-k_ * times) + b_ * times}, feats)
            return


def regimen_rows_case(ctx, rng, idx):
    """tables with dose events (include_regimen) of all five predictive
    models over a dosed PK model: the measurement rows are those of the call
    without dose events, the dose rows are exactly the events of the regimen
    up to the last requested time (for every sample ID where the model
    documents per-sample dose rows, once otherwise), and nothing else is
    added; n_samples=None is one sample"""
    from chi.library import ModelLibrary
    from harness.oracle import regimen as R
    kind = ['individual', 'population', 'prior', 'posterior', 'pam'][idx % 5]
    m = ModelLibrary().one_compartment_pk_model()
    m.set_administration('central', direct=bool(rng.integers(2)))
    n_out = int(rng.integers(1, 3))
    m.set_outputs(['central.drug_concentration',
                   'central.drug_amount'][:n_out])
    ems = [EMS[int(rng.integers(4))] for _ in range(n_out)]
    pm = chi.PredictiveModel(m, [getattr(chi, e)() for e in ems])
    dose = float(rng.uniform(0.5, 3))
    start = float(rng.uniform(0, 2))
    duration = float(rng.uniform(0.05, 0.3))
    period = [None, float(rng.uniform(0.5, 1.5)),
              float(rng.uniform(0.5, 1.5))][int(rng.integers(3))]
    num = None if period is None else [None, int(rng.integers(1, 4))][
        int(rng.integers(2))]
    times = rng.permutation(np.array([0.4, 0.9, 1.3, 2.2, 3.1, 4.5]))[
        :int(rng.integers(1, 5))]
    if len(times) > 1 and rng.random() < 0.5:
        # (the earliest time is listed last)
        times = np.concatenate([np.sort(times)[1:][::-1], [times.min()]])
    if rng.random() < 0.2:
        times[0] = start            # an event exactly at the last / a time
    t_end = float(np.max(times))
    ev = R.events(dose, start, duration, period, num, t_end)
    n_mech = m.n_parameters()
    x = np.concatenate([rng.uniform(0.5, 1.5, n_mech)] + [
        rng.uniform(0.1, 0.4, D.ERROR_MODELS[e][0]) for e in ems])
    names = pm.get_parameter_names()
    n = int(rng.integers(1, 5))
    if kind in ('individual', 'population') and (idx // 5) % 2 == 1:
        # several events for several samples (numbers with a common
        # divisor): every sample ID lists every event once
        n = int(rng.choice([2, 4, 6]))
        period = float(rng.uniform(0.3, 0.6))
        num = int(rng.choice([2, 4]))
        start = float(rng.uniform(0, 0.3))
        times = np.array([4.5, 0.9, 2.2])
        t_end = 4.5
        ev = R.events(dose, start, duration, period, num, t_end)
    if (idx // 5) % 2 == 0:
        # a dose exactly AT the last requested time, for periods and times
        # that are round decimal numbers (0.2, 2.0): the event is listed
        # (floor divisions of such floats may be one short)
        hard = rng.random() < 0.7
        for _ in range(200):
            period = float(rng.choice([0.1, 0.2, 0.3, 0.7, 1.1, 2.4]))
            start = float(rng.choice([0.0, 0.1, 0.5, 1.0]))
            k_ = int(rng.integers(1, 13))
            t_end = round(start + k_ * period, 10)
            # (preferably a pair for which the float floor division of the
            # elapsed time by the period is one short of the dose count)
            if start + k_ * period == t_end and (
                    not hard or (t_end - start) // period < k_):
                break
        num = [None, k_ + 3, k_ + 1][int(rng.integers(3))]
        times = np.array([t_end, t_end / 2])
        duration = min(duration, 0.4 * period)
        ev = R.events(dose, start, duration, period, num, t_end)
        feats_boundary = True
    else:
        feats_boundary = False
    seed = int(rng.integers(1, 2 ** 31))
    feats = {'family': 'regimen_rows', 'model': kind, 'n_samples': n,
             'regimen': {'dose': dose, 'start': start, 'duration': duration,
                         'period': period, 'num': num}, 'events': len(ev),
             'dose_at_the_last_time': feats_boundary}
    ctx.case(('regimen_rows', kind, min(len(ev), 3), period is None,
              num is None), True, sample=dict(feats, times=times))
    try:
        if kind == 'individual':
            model = pm
            call = lambda **k: pm.sample(x, times, seed=seed, **k)  # noqa
            per_sample = True
        elif kind == 'population':
            pop = chi.ComposedPopulationModel([
                chi.LogNormalModel(n_dim=1),
                chi.PooledModel(n_dim=len(names) - 1)])
            pop.set_dim_names(names)
            model = chi.PopulationPredictiveModel(pm, pop)
            top = np.concatenate([[float(np.log(x[0])), 0.1], x[1:]])
            call = lambda **k: model.sample(top, times, seed=seed, **k)  # noqa
            per_sample = True
        elif kind == 'prior':
            model = chi.PriorPredictiveModel(pm, pints.ComposedLogPrior(*[
                pints.LogNormalLogPrior(float(np.log(v)), 0.05) for v in x]))
            call = lambda **k: model.sample(times, seed=seed, **k)  # noqa
            per_sample = False
        else:
            ds = _posterior_dataset(rng, names, 2, 5, ['a', 'b'])
            model = chi.PosteriorPredictiveModel(pm, ds)
            if kind == 'pam':
                # (candidate models with their OWN predictive models, as
                # models of different structure would have)
                def _pm2():
                    m2 = ModelLibrary().one_compartment_pk_model()
                    m2.set_administration('central', direct=bool(
                        m.administration()['direct']))
                    m2.set_outputs(m.outputs())
                    return chi.PredictiveModel(
                        m2, [getattr(chi, e)() for e in ems])
                model = chi.PAMPredictiveModel(
                    [model, chi.PosteriorPredictiveModel(_pm2(), ds + 0.01)],
                    [0.5, 0.5])
                # twin: the regimen is given to every candidate by hand
                cands = [chi.PosteriorPredictiveModel(_pm2(), ds),
                         chi.PosteriorPredictiveModel(_pm2(), ds + 0.01)]
                for c_ in cands:
                    c_.set_dosing_regimen(dose, start, duration, period, num)
                pam_twin = chi.PAMPredictiveModel(cands, [0.5, 0.5])
            call = lambda **k: model.sample(  # noqa
                times, individual='a', seed=seed, **k)
            per_sample = False
        model.set_dosing_regimen(dose, start, duration, period, num)
        plain = call(n_samples=n)
        plain2 = call(n_samples=n, include_regimen=False)
        full = call(n_samples=n, include_regimen=True)
        one_default = call()
        one = call(n_samples=1)
        twin_df = None
        if kind == 'pam':
            twin_df = pam_twin.sample(times, individual='a', seed=seed,
                                      n_samples=max(n, 6))
            many = call(n_samples=max(n, 6))
    except Exception as e:      # noqa
        ctx.violation_exc('sample_raises', e, {'case': feats}, feats)
        return
    ctx.count('regimen_tables_checked')

    def meas(df):
        d = df[df['Observable'].notna()]
        return [(int(i_), float(t_), str(o_), float(v_)) for i_, t_, o_, v_
                in zip(d['ID'], d['Time'], d['Observable'], d['Value'])]

    prob = []
    if twin_df is not None and meas(many) != meas(twin_df):
        prob.append('the regimen set through the averaged model does not '
                    'reach every candidate model (samples differ from those '
                    'of candidates dosed one by one)')
    if meas(plain) != meas(full) or meas(plain) != meas(plain2):
        prob.append('measurement rows differ between the calls with and '
                    'without dose events')
    if meas(one_default) != meas(one):
        prob.append('n_samples=None is not one sample')
    for tag, df in (('default', plain), ('include_regimen=False', plain2)):
        if 'Dose' in df.columns and df['Dose'].notna().any():
            prob.append('dose rows although not requested (%s)' % tag)
    drows = full[full['Dose'].notna()] if 'Dose' in full.columns else \
        full.iloc[:0]
    want = sorted((s_, d_, a_) for s_, d_, a_ in ev)

    def evs(rows):
        return sorted((float(t_), float(d_), float(a_)) for t_, d_, a_ in zip(
            rows['Time'], rows['Duration'], rows['Dose']))
    if len(ev) == 0:
        if len(drows):
            prob.append('%d dose rows, none scheduled up to the last time'
                        % len(drows))
    elif per_sample:
        for i in range(1, n + 1):
            got = evs(drows[drows['ID'] == i])
            if len(got) != len(want) or not np.allclose(got, want,
                                                        rtol=1e-12):
                prob.append('dose rows of ID %d: %s, scheduled %s' % (
                    i, got[:4], want[:4]))
                break
        if len(drows) != n * len(want):
            prob.append('%d dose rows for %d samples x %d events' % (
                len(drows), n, len(want)))
    else:
        got = evs(drows)
        if len(got) != len(want) or not np.allclose(got, want, rtol=1e-12):
            prob.append('dose rows %s, scheduled %s' % (got[:4], want[:4]))
    if len(full) != len(meas(full)) + len(drows):
        prob.append('rows that are neither measurements nor dose events')
    if prob:
        ctx.violation('table_dose_rows', 'dose_rows:' + kind,
                      {'problems': prob, 'case': feats}, feats)


FAMILIES = [
    Family('regimen_rows', regimen_rows_case, quick=60, thorough=600),
    Family('individual', individual_case, quick=48, thorough=600),
    Family('population', population_case, quick=160, thorough=3000),
    Family('posterior', posterior_case, quick=120, thorough=2000),
    Family('prior', prior_case, quick=16, thorough=200),
    Family('pam', pam_case, quick=24, thorough=300),
    Family('covariate_rows', covariate_rows_case, quick=48, thorough=480),
]
