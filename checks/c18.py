"""
C18 - inference I/O keeps parameters, individuals and draws aligned.
Oracle: unique-value chains (entry (c, d, k) encodes chain, draw and column)
pushed through the real SamplingController / OptimisationController by
substituting what pints returns at the boundary; the bijection position <->
(name, ID) published by the posterior; reference densities for the initial
points; real short runs are monitored at the same boundary.
"""
import functools

import numpy as np
import pints
import xarray as xr
from scipy import stats

from harness.bootstrap import load_chi
from harness.core import Family
from harness import gen_hier as GH
from harness import gen_loglik as GL
from harness import gen_pop as GP
from harness import toys
from harness.oracle import densities as D
from harness.oracle import stats as S
from checks import c02, c15

chi = load_chi()

PROP = 'C18'
TITLE = 'inference I/O keeps parameters, individuals and draws aligned'
RULE = (
    'posteriors: individual LogPosterior (C01 space) and hierarchical '
    'posteriors over the C02 compositions (enumerated and random, reduced '
    'population models, int / str IDs), 1-5 individuals, 1-4 chains / runs, '
    '1-6 draws; unique-value chains and estimates injected at the pints '
    'boundary; real 12-30 iteration runs (sequential and parallel) observed '
    'at the same boundary; initial points for 3 posterior classes; read-back '
    'through PosteriorPredictiveModel and compute_pointwise_loglikelihood; '
    'signature = (family, composition, n_ids, n_chains, n_draws); '
    'non-trivial = hierarchical or >1 chain')
ASSUMPTIONS = [
    'pints.MCMCController.run / pints.OptimisationController.run are the '
    'boundary: what they return is what chi must file',
    'priors used for initial points have positive support for scale '
    'parameters (a prior that proposes negative scales is refused by the '
    'population model: rejection)',
    'compositions with duplicate default names (KF-C17-dim-names-reset) are '
    'not generated here',
]
ANCHORS = [
    'chi._inference.SamplingController._format_chains',
    'chi._inference.SamplingController.run',
    'chi._inference.OptimisationController.run',
    'chi._inference.InferenceController.__init__',
    'chi._log_pdfs.HierarchicalLogPosterior.sample_initial_parameters',
    'chi._log_pdfs.LogPosterior.sample_initial_parameters',
]
REQUIRED = {'datasets_checked': 100, 'dataset_entries_identified': 5000,
            'optimisation_tables_checked': 40, 'initial_point_sets': 100,
            'real_runs': 4, 'readback_draws': 100,
            'located_entries': 200}

_INJECT = {'chains': None, 'opt': None, 'seen_chains': None}
_PATCHED = False


def _patch():
    global _PATCHED
    if _PATCHED:
        return
    _PATCHED = True
    orig_run = pints.MCMCController.run

    @functools.wraps(orig_run)
    def run(self, *a, **k):
        if _INJECT['chains'] is not None:
            return _INJECT['chains']
        out = orig_run(self, *a, **k)
        _INJECT['seen_chains'] = np.array(out)
        return out
    pints.MCMCController.run = run
    orig_opt = pints.OptimisationController.run

    @functools.wraps(orig_opt)
    def orun(self, *a, **k):
        if _INJECT.get('seen_x0') is not None:
            _INJECT['seen_x0'].append(np.array(
                self._optimiser._x0, dtype=float))
        if _INJECT['opt'] is not None:
            item = _INJECT['opt'].pop(0)
            if isinstance(item, Exception):
                # (injected fault: this optimisation run breaks)
                raise item
            return item
        out = orig_opt(self, *a, **k)
        if _INJECT.get('seen_opt') is not None:
            _INJECT['seen_opt'].append((np.array(out[0]), out[1]))
        return out
    pints.OptimisationController.run = orun


def unique_chains(n_chains, n_draws, n_par):
    c = np.arange(n_chains)[:, None, None]
    d = np.arange(n_draws)[None, :, None]
    k = np.arange(n_par)[None, None, :]
    return (1000000.0 * c + 1000.0 * d + k) * np.ones(
        (n_chains, n_draws, n_par))


def make_posterior(rng, idx):
    """returns (posterior, kind, case)"""
    if idx % 4 == 0:
        case = GL.LLCase(rng, allow_empty=False)
        ll = case.build()
        if rng.random() < 0.5:
            ll.set_id(['A7', 3, 'patient x'][int(rng.integers(3))])
        prior = pints.ComposedLogPrior(*[
            pints.LogNormalLogPrior(float(np.log(v)), 0.1)
            for v in case.point(rng)])
        return chi.LogPosterior(ll, prior), 'individual', case
    if idx % 4 == 1:
        case = c02.make_enumerated(rng, int(rng.integers(10 ** 6)))
    else:
        case = c02.make_random(rng, idx)
        case.posterior = False
    case.build(rng)
    names = case.hl.get_parameter_names(include_ids=True)
    if len(set(names)) != len(names):
        return None, 'duplicate_names', case
    return case.sampling_posterior(), 'hierarchical', case


def _positions(post, kind):
    """[(name, id or None)] per vector position"""
    names = post.get_parameter_names()
    if kind == 'individual':
        return [(n, None) for n in names]
    ids = post.get_id()
    return list(zip(names, ids))


def dataset_case(ctx, rng, idx):
    _patch()
    try:
        post, kind, case = make_posterior(rng, idx)
    except Exception as e:      # noqa
        ctx.violation_exc('posterior_setup_raises', e, {})
        return
    if post is None:
        ctx.reject('duplicate default names')
        return
    n_chains = int(rng.integers(1, 5))
    n_draws = int(rng.integers(1, 7))
    n_par = post.n_parameters()
    feats = {'kind': kind, 'n_chains': n_chains, 'n_draws': n_draws,
             'n_parameters': n_par}
    if kind == 'hierarchical':
        feats.update(case.features())
    ctx.case((kind, case.signature() if kind == 'hierarchical' else
              case.n_out, n_chains, n_draws),
             kind == 'hierarchical' or n_chains > 1, sample=feats)
    chains = unique_chains(n_chains, n_draws, n_par)
    try:
        ctrl = chi.SamplingController(post, seed=int(rng.integers(1000)))
        ctrl.set_n_runs(n_chains)
        ctrl.set_parallel_evaluation(False)
        _INJECT['chains'] = chains
        try:
            ds = ctrl.run(n_iterations=n_draws)
        finally:
            _INJECT['chains'] = None
    except Exception as e:      # noqa
        ctx.violation_exc('sampling_controller_raises', e,
                          {'case': feats}, feats)
        return
    ctx.count('datasets_checked')
    pos = _positions(post, kind)
    # every parameter exactly once under its name
    want_vars = []
    for n, _ in pos:
        if n not in want_vars:
            want_vars.append(n)
    got_vars = list(ds.data_vars)
    if sorted(got_vars) != sorted(want_vars):
        ctx.violation('every_parameter_once_under_its_name',
                      'dataset_variables',
                      {'dataset': got_vars, 'expected': want_vars}, feats)
        return
    for k, (name, _id) in enumerate(pos):
        da = ds[name]
        if _id is None:
            if kind == 'hierarchical' and set(da.dims) != {'chain', 'draw'}:
                ctx.violation('population_level_indexed_by_chain_draw',
                              'population_parameter_dims',
                              {'parameter': name, 'dims': da.dims}, feats)
                return
            vals = da.values if 'individual' not in da.dims else None
            if vals is None:
                vals = da.values[:, :, 0]
            vals = np.asarray(vals)
            if vals.shape == (n_draws, n_chains) and n_draws != n_chains:
                vals = vals.T
        else:
            if 'individual' not in da.dims:
                ctx.violation('individual_level_indexed_by_id',
                              'individual_parameter_dims',
                              {'parameter': name, 'dims': da.dims}, feats)
                return
            try:
                vals = da.sel(individual=_id).transpose(
                    'chain', 'draw').values
            except Exception as e:      # noqa
                ctx.violation_exc('individual_level_indexed_by_id', e,
                                  {'parameter': name, 'id': _id}, feats)
                return
        ctx.count('dataset_entries_identified', int(np.size(vals)))
        if not np.array_equal(np.asarray(vals, dtype=float),
                              chains[:, :, k]):
            got_k = sorted(set(int(v) % 1000 for v in np.ravel(vals)))
            ctx.violation('entry_equals_raw_chain_entry',
                          'dataset_entry_from_wrong_column',
                          {'parameter': name, 'id': _id, 'position': k,
                           'columns_found': got_k}, feats)
            return
    # ---- read back: posterior predictive / pointwise log-likelihood
    if kind == 'hierarchical' and case.h.n_hdim == case.h.n_dim and \
            case.n_ids >= 1 and idx % 2 == 0:
        _readback(ctx, rng, case, post, ds, chains, feats)
    elif kind == 'hierarchical' and case.n_ids >= 1 and all(
            l.kind in 'GLTP' and not l.cov for l in case.leaves) and any(
            l.kind == 'P' for l in case.leaves) and not case.reduced:
        _readback_mixed(ctx, rng, case, post, ds, chains, feats)
    if kind == 'individual':
        _readback_individual(ctx, rng, case, post, feats)


def _readback_mixed(ctx, rng, case, post, ds, chains, feats):
    """a dataset with individual-level AND population-level (pooled)
    variables, read by a posterior predictive model of the individuals
    through a param_map: every parameter vector handed to the predictive
    model is ONE joint draw (same chain, same draw) of the chosen
    individual's and the pooled parameters, each from its own column"""
    c15._patch()
    pm = chi.PredictiveModel(
        toys.ToyMulti(case.n_out),
        [getattr(chi, e)() for e in case.cases[0].em_names])
    if case.fix_sigma:
        names = case.full_names[case.n_mech:]
        pm.fix_parameters(dict(zip(names, case.sigma_values)))
    pos = _positions(post, 'hierarchical')
    ids = post.get_id(unique=True)
    who = ids[int(rng.integers(len(ids)))]
    pmap, want_cols = {}, []
    gd = 0
    for l in case.leaves:
        for j in range(l.n_dim):
            dn = case.dim_names[gd]
            if l.kind == 'P':
                var = 'Pooled ' + dn
                hits = [k for k, (n_, i_) in enumerate(pos)
                        if n_ == var and i_ is None]
                pmap[dn] = var
            else:
                hits = [k for k, (n_, i_) in enumerate(pos)
                        if n_ == dn and i_ == who]
            if len(hits) != 1:
                ctx.reject('no unique column for ' + dn)
                return
            want_cols.append(hits[0])
            gd += 1
    feats = dict(feats, readback='mixed levels')
    try:
        ppm = chi.PosteriorPredictiveModel(pm, ds, param_map=pmap)
        df, calls = c15._tap(lambda: ppm.sample(
            [1.0], n_samples=8, individual=who,
            seed=int(rng.integers(1000))))
    except Exception as e:      # noqa
        ctx.violation_exc('posterior_predictive_readback_raises', e,
                          {'case': feats, 'param_map': pmap}, feats)
        return
    for vec, _ in calls:
        ctx.count('readback_draws')
        ctx.count('mixed_level_readback_draws')
        c = set(int(v) // 1000000 for v in vec)
        d = set(int(v) % 1000000 // 1000 for v in vec)
        k = [int(v) % 1000 for v in vec]
        if len(c) != 1 or len(d) != 1 or k != want_cols:
            ctx.violation('readback_selects_matching_columns',
                          'posterior_predictive_not_a_joint_draw',
                          {'chains': sorted(c), 'draws': sorted(d),
                           'columns': k, 'expected_columns': want_cols,
                           'param_map': pmap}, feats)
            return


def _readback_individual(ctx, rng, case, post, feats):
    """the dataset a sampling run of an individual posterior returns is
    accepted by the pointwise evaluation and by the posterior predictive
    model, which select the matching columns"""
    ll = post.get_log_likelihood()
    n_chains, n_draws = int(rng.integers(1, 4)), int(rng.integers(1, 4))
    pts = np.asarray(post.sample_initial_parameters(
        n_samples=n_chains * n_draws, seed=int(rng.integers(100))))
    ch = pts.reshape(n_chains, n_draws, -1)
    _INJECT['chains'] = ch
    try:
        ctrl = chi.SamplingController(post, seed=1)
        ctrl.set_n_runs(n_chains)
        ds = ctrl.run(n_iterations=n_draws)
    except Exception as e:      # noqa
        ctx.violation_exc('sampling_controller_raises', e, {'case': feats},
                          feats)
        return
    finally:
        _INJECT['chains'] = None
    if rng.random() < 0.5:
        # a dataset is a mapping: the order in which it stores its variables
        # (re-assembled, merged, loaded from file) is not the order of the
        # parameters; unrelated variables may sit in between
        order_ = [str(v) for v in rng.permutation(list(ds.data_vars))]
        ds2 = ds[order_[:1]]
        ds2['an unrelated variable'] = ds[order_[0]] * 0 + 17.0
        for v_ in order_[1:]:
            ds2[v_] = ds[v_]
        ds2.attrs = dict(ds.attrs)
        ds = ds2
        feats['dataset_variable_order'] = 'shuffled'
    try:
        pw = chi.compute_pointwise_loglikelihood(ll, ds)
        vals = np.asarray(pw.values if hasattr(pw, 'values') else pw)
    except Exception as e:      # noqa
        ctx.violation_exc('pointwise_readback_raises', e,
                          {'case': feats, 'dataset_dims': dict(ds.sizes)},
                          dict(feats, readback='individual'))
        return
    for c in range(n_chains):
        for d in range(n_draws):
            ref = ll.compute_pointwise_ll(ch[c, d])
            ctx.count('pointwise_readbacks')
            got = vals[c, d] if vals.ndim >= 3 else None
            if got is None or not np.allclose(got, ref, rtol=1e-12,
                                              equal_nan=True):
                ctx.violation('readback_selects_matching_columns',
                              'pointwise_wrong_columns:individual',
                              {'chain': c, 'draw': d, 'shape': vals.shape},
                              dict(feats, readback='individual'))
                return


def _readback(ctx, rng, case, post, ds, chains, feats):
    c15._patch()
    pm = chi.PredictiveModel(
        toys.ToyMulti(case.n_out),
        [getattr(chi, e)() for e in case.cases[0].em_names])
    if case.fix_sigma:
        names = case.full_names[case.n_mech:]
        pm.fix_parameters(dict(zip(names, case.sigma_values)))
    ids = post.get_id(unique=True)
    who = ids[int(rng.integers(len(ids)))]
    i_who = ids.index(who)
    n = 6
    # one predictive model object serves several individuals one after the
    # other (a figure per individual, then back to the first one)
    sequence = [who]
    if len(ids) > 1:
        other = [i_ for i_ in ids if i_ != who]
        sequence += [other[int(rng.integers(len(other)))], who]
    try:
        ppm = chi.PosteriorPredictiveModel(pm, ds)
    except Exception as e:      # noqa
        ctx.violation_exc('posterior_predictive_readback_raises', e,
                          {'case': feats}, feats)
        return
    for step, cur in enumerate(sequence):
        try:
            df, calls = c15._tap(lambda: ppm.sample(
                [1.0], n_samples=n, individual=cur,
                seed=int(rng.integers(1000))))
        except Exception as e:      # noqa
            # parameters may be negative for a predictive draw (unique
            # values are large positive numbers, so this is unexpected)
            ctx.violation_exc('posterior_predictive_readback_raises', e,
                              {'case': feats}, feats)
            return
        i_cur = ids.index(cur)
        cols = [i_cur * case.n_dim + j for j in range(case.n_dim)]
        for vec, _ in calls:
            ctx.count('readback_draws')
            c = set(int(v) // 1000000 for v in vec)
            d = set(int(v) % 1000000 // 1000 for v in vec)
            k = [int(v) % 1000 for v in vec]
            if len(c) != 1 or len(d) != 1 or k != cols:
                ctx.violation('readback_selects_matching_columns',
                              'posterior_predictive_wrong_columns',
                              {'chain': sorted(c), 'draw': sorted(d),
                               'columns': k, 'expected_columns': cols,
                               'individual': cur,
                               'individuals sampled so far':
                               sequence[:step + 1]}, feats)
                return
    cols = [i_who * case.n_dim + j for j in range(case.n_dim)]
    # pointwise log-likelihood of that individual
    ll = case.lls[i_who]
    # unique values are no sensible parameters: use a second dataset with
    # the real initial points as "chains"
    init = post.sample_initial_parameters(n_samples=2, seed=3)
    ch = np.stack([init, init[::-1]], axis=1)          # (2 chains, 2 draws)
    _INJECT['chains'] = ch
    try:
        ctrl = chi.SamplingController(post, seed=1)
        ctrl.set_n_runs(2)
        ds2 = ctrl.run(n_iterations=2)
    finally:
        _INJECT['chains'] = None
    try:
        pw = chi.compute_pointwise_loglikelihood(ll, ds2, individual=who)
    except Exception as e:      # noqa
        ctx.violation_exc('pointwise_readback_raises', e, {'case': feats},
                          feats)
        return
    for c in range(2):
        for d in range(2):
            ref = ll.compute_pointwise_ll(ch[c, d, cols])
            ctx.count('pointwise_readbacks')
            if not np.allclose(pw.values[c, d], ref, rtol=1e-12,
                               equal_nan=True):
                ctx.violation('readback_selects_matching_columns',
                              'pointwise_wrong_columns',
                              {'chain': c, 'draw': d}, feats)
                return
    # the dataset may store the parameters under other names (param_map:
    # likelihood name -> dataset name), also names that are likelihood
    # names of OTHER parameters (exchanged names, chains of names)
    lnames = list(ll.get_parameter_names())
    if len(set(lnames)) == len(lnames) and len(lnames) >= 2 and \
            all(n_ in ds2 for n_ in lnames):
        a_, b_ = [lnames[i] for i in rng.permutation(len(lnames))[:2]]
        kind_m = ['exchange', 'chain', 'fresh'][int(rng.integers(3))]
        if kind_m == 'exchange':
            ds3 = ds2.rename({a_: 'tmp name'}).rename({b_: a_}).rename(
                {'tmp name': b_})
            pmap = {a_: b_, b_: a_}
        elif kind_m == 'chain':
            ds3 = ds2.rename({b_: 'fresh name'}).rename({a_: b_})
            pmap = {a_: b_, b_: 'fresh name'}
        else:
            ds3 = ds2.rename({a_: 'posterior of ' + a_})
            pmap = {a_: 'posterior of ' + a_}
        if rng.random() < 0.5:
            pmap = dict(reversed(list(pmap.items())))
        try:
            pw3 = chi.compute_pointwise_loglikelihood(
                ll, ds3, individual=who, param_map=pmap)
        except Exception as e:      # noqa
            ctx.violation_exc('pointwise_readback_raises', e,
                              {'case': feats, 'param_map': pmap}, feats)
            return
        ctx.count('pointwise_readbacks_with_param_map')
        if not np.allclose(pw3.values, pw.values, rtol=1e-12,
                           equal_nan=True):
            ctx.violation('readback_selects_matching_columns',
                          'pointwise_wrong_columns_with_param_map:' + kind_m,
                          {'param_map': pmap}, feats)
            return


def optimisation_case(ctx, rng, idx):
    _patch()
    try:
        post, kind, case = make_posterior(rng, idx)
    except Exception as e:      # noqa
        ctx.violation_exc('posterior_setup_raises', e, {})
        return
    if post is None:
        ctx.reject('duplicate default names')
        return
    n_runs = int(rng.integers(1, 5)) if rng.random() < 0.6 else \
        int(rng.integers(6, 10))
    n_par = post.n_parameters()
    if n_par < 2:
        # (pints' default optimiser, CMA-ES, refuses one-dimensional
        # problems when the controller is created)
        ctx.reject('one-dimensional optimisation problem')
        return
    feats = {'kind': kind, 'n_runs': n_runs, 'n_parameters': n_par}
    ctx.case(('opt', kind, n_runs, n_par), True, sample=feats)
    ests = [(1000.0 * (r + 1) + np.arange(n_par), -7.5 - r)
            for r in range(n_runs)]
    # injected fault: one of the runs breaks inside the optimiser; its rows
    # are reported as NaN and the other runs keep their estimates
    broken = int(rng.integers(n_runs)) if rng.random() < 0.3 else None
    feats['broken_run'] = broken is not None
    inject = list(ests)
    if broken is not None:
        inject[broken] = FloatingPointError('injected optimiser failure')
        ests[broken] = (np.full(n_par, np.nan), np.nan)
    seed_c = int(rng.integers(99))
    # the number of runs may be set more than once (2, then the final one)
    twice = bool(rng.random() < 0.4)
    feats['n_runs_set_twice'] = twice
    try:
        ctrl = chi.OptimisationController(post, seed=seed_c)
        if twice:
            ctrl.set_n_runs(2)
        ctrl.set_n_runs(n_runs)
        ctrl.set_parallel_evaluation(False)
        _INJECT['opt'] = inject
        _INJECT['seen_x0'] = []
        try:
            tab = ctrl.run(n_max_iterations=3)
        finally:
            _INJECT['opt'] = None
            x0s = _INJECT.get('seen_x0') or []
            _INJECT['seen_x0'] = None
    except Exception as e:      # noqa
        ctx.violation_exc('optimisation_controller_raises', e,
                          {'case': feats}, feats)
        return
    ctx.count('optimisation_tables_checked')
    # the runs start from the initial points the seed determines, whatever
    # number of runs was set before: one independent draw per run
    try:
        want_x0 = np.asarray(post.sample_initial_parameters(
            n_samples=n_runs, seed=seed_c), dtype=float)
    except Exception as e:      # noqa
        ctx.violation_exc('initial_points_raise', e, {'case': feats}, feats)
        return
    ctx.count('starting_points_compared', len(x0s))
    if len(x0s) != n_runs or not np.array_equal(np.array(x0s), want_x0):
        ctx.violation('initial_points_reproducible_from_seed',
                      'starting_points_differ_from_seeded_initial_points',
                      {'runs': len(x0s), 'n_runs': n_runs,
                       'first entries of the starting points':
                       [float(x_[0]) for x_ in x0s],
                       'first entries of sample_initial_parameters':
                       want_x0[:, 0].tolist()}, feats)
        return
    pos = _positions(post, kind)
    if kind == 'individual':
        pos = [(n, post.get_id()) for n, _ in pos]
    prob = []
    if len(tab) != n_runs * n_par:
        prob.append('%d rows, expected %d' % (len(tab), n_runs * n_par))
    else:
        for r in range(n_runs):
            rows = tab[tab['Run'] == r + 1]
            if len(rows) != n_par:
                prob.append('run %d has %d rows' % (r + 1, len(rows)))
                break
            for k, (name, _id) in enumerate(pos):
                row = rows.iloc[k]
                idv = row['ID']
                # (population-level entries have the ID None, as get_id()
                # says: a NaN is not None for code that reads the table)
                same_id = (idv is None) if _id is None else (idv == _id)
                def same(a_, b_):
                    return a_ == b_ or (a_ != a_ and b_ != b_)
                if row['Parameter'] != name or not same_id or \
                        not same(row['Estimate'], ests[r][0][k]) or \
                        not same(row['Score'], ests[r][1]):
                    prob.append('run %d row %d: %s' % (
                        r + 1, k, dict(row)))
                    break
            if prob:
                break
    if prob:
        ctx.violation('optimisation_table_pairs_estimates',
                      'optimisation_table', {'problems': prob}, feats)


def initial_case(ctx, rng, idx):
    which = idx % 3
    feats = {'posterior': ['individual', 'hierarchical', 'filter'][which]}
    # boundary seeds are seeds too (0 is falsy)
    seed = [0, int(rng.integers(0, 10 ** 6)), 1,
            int(rng.integers(0, 10 ** 6))][(idx // 3) % 4]
    if (idx // 12) % 3 == 1:
        seed = np.int64(seed)
    feats['seed'] = int(seed)
    n = int(rng.integers(1, 5))
    try:
        if which == 0:
            post, kind, case = make_posterior(rng, 0)
        elif which == 1:
            post, kind, case = make_posterior(rng, 1 + (idx // 3) % 3)
            if post is None:
                ctx.reject('duplicate default names')
                return
            feats.update(case.features())
        else:
            from checks import c13
            case = c13.FPCase(rng, idx // 3)
            case.prior_mu = case.point(rng)[:case.n_top]
            case.prior_sd = np.full(case.n_top, 0.01)
            post = case.build()
            feats.update(case.features())
    except Exception as e:      # noqa
        ctx.violation_exc('posterior_setup_raises', e, feats, feats)
        return
    ctx.case(('initial', which, tuple(feats.get('leaves', [])), n), True,
             sample=dict(feats, n_samples=n, seed=seed))
    try:
        a = post.sample_initial_parameters(n_samples=n, seed=seed)
        np.random.seed(int(seed) + 5)
        np.random.rand(int(rng.integers(1, 9)))
        b = post.sample_initial_parameters(n_samples=n, seed=seed)
    except Exception as e:      # noqa
        ctx.violation_exc('initial_parameters_raise', e, {'case': feats},
                          feats)
        return
    ctx.count('initial_point_sets')
    a = np.asarray(a, dtype=float)
    if a.shape != (n, post.n_parameters()):
        ctx.violation('initial_points_have_posterior_dimension',
                      'initial_shape', {'shape': a.shape,
                                        'n_parameters': post.n_parameters()},
                      feats)
        return
    if not np.array_equal(a, np.asarray(b, dtype=float)):
        ctx.violation('initial_points_reproducible', 'initial_irreproducible',
                      {'first': a[0][:6], 'second': np.asarray(b)[0][:6]},
                      feats)
    if np.any(~np.isfinite(a)):
        ctx.violation('initial_points_finite', 'initial_nonfinite',
                      {'points': a}, feats)
        return
    if which == 2:
        # every entry of the point means what its published name / ID says
        # (perturbation through the taps; shared with the C13 machinery)
        from checks import c13
        try:
            c13._patch_filters()
            c13._names(ctx, case, a[0], rng)
            ctx.count('filter_names_checked_by_dataflow')
        except Exception as e:      # noqa
            ctx.violation_exc('names_dataflow_raises', e, {'case': feats},
                              feats)
            return
    # prior and population contributions are finite
    for row in a:
        if which == 0:
            ok = np.isfinite(post.get_log_prior()(row))
            detail = {'prior': float(post.get_log_prior()(row))}
        elif which == 1:
            h = case.h
            top = row[h.n_bottom:]
            pr = post.get_log_prior()(top)
            z = np.array(case.x_full, dtype=float)
            z[case.free_mask()] = row
            ps, _ = h.pop_score(z, case.cov)
            ok = np.isfinite(pr) and np.isfinite(np.real(ps))
            detail = {'prior': float(pr), 'population': float(np.real(ps))}
        else:
            pop, sigma, bottom, eps = case.split(row)
            pr = post.get_log_prior()(row[:case.n_top])
            ps, _ = case.h.pop_score(np.concatenate([bottom, pop]),
                                     case.cov)
            ok = np.isfinite(pr) and np.isfinite(np.real(ps))
            detail = {'prior': float(pr), 'population': float(np.real(ps))}
        if not ok:
            ctx.violation('initial_points_inside_prior_and_population',
                          'initial_point_outside_support',
                          dict(detail, point=row), feats)
            return


def _check_located(ctx, bottom, hdims, loc, feats, what):
    """bottom: (n_points, n_individuals, n_hdim) individual-level entries"""
    for c, gd in enumerate(hdims):
        kind, centered, m = loc[gd]
        col = bottom[:, :, c]
        ctx.count('located_entries', int(col.size))
        if not centered and kind in 'GL':
            ok = np.all(np.abs(col) < 8)
        elif kind == 'L':
            ok = np.all(col > 0) and np.all(np.abs(np.log(col) - m) < 0.6)
        else:
            ok = np.all(np.abs(col - m) < 0.6)
        if not ok:
            ctx.violation('individual_entries_drawn_from_population_model',
                          'initial_entry_of_wrong_dimension:' + what,
                          {'dimension': gd, 'expected_location': m,
                           'kind': kind, 'centered': centered,
                           'values': col.ravel()[:6]}, feats)
            return False
    return True


def initial_located_case(ctx, rng, idx):
    """well separated dimensions: every individual-level entry of an initial
    point must sit in its own dimension's population distribution"""
    from checks import c13
    n_ids = int(rng.integers(1, 4))
    seed = int(rng.integers(0, 10 ** 6))
    if idx % 2 == 0:
        case = c02.make_random(rng, idx)
        case.reduced = False
        case.leaves = [GP.make_leaf(l.kind, l.n_dim, l.centered,
                                    l.cov['n_cov'] if l.cov else 0, None,
                                    case.n_ids) for l in case.leaves]
        case.h = __import__('harness.oracle.hierarchy', fromlist=['H']
                            ).Hierarchy(case.leaves, case.n_ids)
        case.free_top = np.ones(case.h.n_top, dtype=bool)
        case.build(rng)
        post, loc = case.separated_posterior()
        leaves, h, n = case.leaves, case.h, case.n_ids
        feats = dict(case.features(), posterior='hierarchical')
        pts = np.asarray(post.sample_initial_parameters(n_samples=3,
                                                        seed=seed))
        bottom = pts[:, :h.n_bottom].reshape(3, n, h.n_hdim) \
            if h.n_hdim else None
    else:
        fp = c13.FPCase(rng, idx, allow_fixed=False)
        top, sd, loc = GP.separated_top(fp.leaves, fp.n_s)
        fp.prior_mu = np.concatenate(
            [top, np.full(fp.n_top - fp.n_pop, 0.2)])
        fp.prior_sd = np.concatenate(
            [sd, np.full(fp.n_top - fp.n_pop, 0.01)])
        post = fp.build()
        leaves, h, n = fp.leaves, fp.h, fp.n_s
        feats = dict(fp.features(), posterior='filter')
        pts = np.asarray(post.sample_initial_parameters(n_samples=3,
                                                        seed=seed))
        eb = fp.n_top + h.n_bottom
        bottom = pts[:, fp.n_top:eb].reshape(3, n, h.n_hdim) \
            if h.n_hdim else None
    ctx.case(('initial_located', feats['posterior'],
              tuple(GP.leaf_code(l) for l in leaves)), True, sample=feats)
    ctx.count('initial_point_sets')
    if bottom is None:
        return
    hdims, gd = [], 0
    for l in leaves:
        if l.n_hdim():
            hdims += list(range(gd, gd + l.n_dim))
        gd += l.n_dim
    _check_located(ctx, bottom, hdims, loc, feats, feats['posterior'])


def initial_covariates_case(ctx, rng, idx):
    """several covariate sub-models, each with its own covariate columns,
    under tight priors: an individual's entry of an initial point sits at
    mean + sum_c beta_c * (that individual's covariates of THAT sub-model),
    within 8 population standard deviations"""
    n_ids = int(rng.integers(2, 5))
    seed = int(rng.integers(0, 10 ** 6))
    cases = [GL.LLCase(rng, n_out=1, allow_empty=False,
                       em_classes=['GaussianErrorModel'])
             for _ in range(n_ids)]
    lls = [c.build() for c in cases]
    n_dim = lls[0].n_parameters()           # 3 mechanistic + 1 noise
    # dimensions -> sub-models: 'C' (one-dimensional covariate model) or
    # 'P' (pooled), at least two 'C', in a random order
    n_c = int(rng.integers(2, n_dim + 1))
    kinds = ['C'] * n_c + ['P'] * (n_dim - n_c)
    kinds = [kinds[i] for i in rng.permutation(n_dim)]
    subs, priors, spec, cov_cols = [], [], [], 0
    for kd in kinds:
        if kd == 'P':
            subs.append(chi.PooledModel())
            priors.append(pints.GaussianLogPrior(1.0, 0.001))
            spec.append(None)
            continue
        n_cov = int(rng.integers(1, 3))
        subs.append(chi.CovariatePopulationModel(
            chi.GaussianModel(), chi.LinearCovariateModel(n_cov=n_cov)))
        mean = float(rng.uniform(5, 10))
        beta = rng.uniform(1.0, 2.0, size=n_cov) * rng.choice(
            [-1, 1], size=n_cov)
        # Mean, Std., then the shifts of the mean and those of the std.
        priors.append(pints.GaussianLogPrior(mean, 0.001))
        priors.append(pints.GaussianLogPrior(0.01, 0.0002))
        priors += [pints.GaussianLogPrior(float(b), 0.001) for b in beta]
        priors += [pints.GaussianLogPrior(0.0, 1e-7) for _ in beta]
        spec.append((mean, beta, slice(cov_cols, cov_cols + n_cov)))
        cov_cols += n_cov
    cov = rng.uniform(-2, 2, size=(n_ids, cov_cols))
    feats = {'family': 'initial_covariates', 'sub_models': ''.join(kinds),
             'n_ids': n_ids, 'covariate_columns': cov_cols, 'seed': seed}
    ctx.case(('initial_covariates', ''.join(kinds), n_ids, cov_cols), True,
             sample=feats)
    try:
        hl = chi.HierarchicalLogLikelihood(
            lls, chi.ComposedPopulationModel(subs), covariates=cov)
        if hl.n_parameters(exclude_bottom_level=True) != len(priors):
            ctx.reject('top-level layout differs from the assumed one')
            return
        post = chi.HierarchicalLogPosterior(
            hl, pints.ComposedLogPrior(*priors))
        pts = np.asarray(post.sample_initial_parameters(n_samples=3,
                                                        seed=seed))
        ids = post.get_id()
    except Exception as e:      # noqa
        ctx.violation_exc('posterior_setup_raises', e, feats, feats)
        return
    ctx.count('initial_point_sets')
    n_bottom = sum(i is not None for i in ids)
    if n_bottom != n_ids * n_c:
        ctx.reject('bottom-level layout differs from the assumed one')
        return
    bottom = pts[:, :n_bottom].reshape(3, n_ids, n_c)
    col = 0
    for sp in spec:
        if sp is None:
            continue
        mean, beta, sl = sp
        want = mean + cov[:, sl] @ beta                     # (n_ids,)
        ctx.count('located_entries', 3 * n_ids)
        dev = np.abs(bottom[:, :, col] - want[None, :])
        if not np.all(dev < 8 * 0.011 + 0.02):
            ctx.violation('individual_entries_drawn_from_population_model',
                          'initial_entry_ignores_own_covariates',
                          {'sub-model': col, 'expected': want,
                           'values': bottom[:, :, col],
                           'covariates': cov}, feats)
            return
        col += 1


def initial_distribution_case(ctx, rng, idx):
    """individual-level entries follow the population model at the sampled
    population values (standardised residuals pooled over many points)"""
    kind, centered = [('G', True), ('L', True), ('T', True), ('G', False),
                      ('L', False)][idx % 5]
    n_ids = 4
    leaves = [GP.make_leaf(kind, 1, centered), GP.make_leaf('P', 2)]
    case = GH.HierCase(rng, leaves, n_ids, n_out=1, fix_sigma=True,
                       em_names=['GaussianErrorModel'])
    case.build(rng)
    post = case.sampling_posterior()
    feats = dict(case.features(), leaf=GP.leaf_code(leaves[0]))
    ctx.case(('initial_distribution', GP.leaf_code(leaves[0])), True,
             sample=feats)
    n = 400
    pts = np.asarray(post.sample_initial_parameters(
        n_samples=n, seed=int(rng.integers(10 ** 6))), dtype=float)
    bottom = pts[:, :n_ids]
    mu, sd = pts[:, n_ids], pts[:, n_ids + 1]
    if not centered:
        u = stats.norm.cdf(bottom)
    elif kind == 'G':
        u = stats.norm.cdf(bottom, mu[:, None], sd[:, None])
    elif kind == 'L':
        u = stats.norm.cdf(np.log(np.maximum(bottom, 1e-300)), mu[:, None],
                           sd[:, None])
    else:
        a = (0 - mu) / sd
        u = stats.truncnorm.cdf(bottom, a[:, None], np.inf, loc=mu[:, None],
                                scale=sd[:, None])
    d = S.ks_uniform(u.ravel())
    crit = S.ks_crit(u.size)
    ctx.count('initial_distribution_tests')
    ctx.maximum('initial_ks_over_crit', d / crit)
    if d > crit:
        ctx.violation('individual_entries_drawn_from_population_model',
                      'initial_bottom_distribution:' + GP.leaf_code(
                          leaves[0]), {'D': d, 'critical': crit}, feats)
    # distinct individuals get distinct draws
    if np.any(bottom[:, 0] == bottom[:, 1]):
        ctx.violation('individual_entries_drawn_from_population_model',
                      'identical_individuals', {}, feats)


def real_run_case(ctx, rng, idx):
    """short real runs, observed at the pints boundary"""
    _patch()
    post, kind, case = make_posterior(rng, [0, 1][idx % 2])
    if post is None:
        return
    parallel = [False, 2][idx // 2 % 2]
    feats = {'kind': kind, 'parallel': parallel}
    ctx.case(('real', kind, parallel, idx % 8), True, sample=feats)
    n_chains = 2
    try:
        ctrl = chi.SamplingController(post, seed=idx)
        ctrl.set_n_runs(n_chains)
        ctrl.set_parallel_evaluation(parallel)
        _INJECT['seen_chains'] = None
        ds = ctrl.run(n_iterations=20)
    except Exception as e:      # noqa
        ctx.violation_exc('sampling_controller_raises', e, {'case': feats},
                          feats)
        return
    raw = _INJECT['seen_chains']
    ctx.count('real_runs')
    if raw is None:
        ctx.violation('boundary_not_reached', 'no_raw_chains', {}, feats)
        return
    pos = _positions(post, kind)
    for k, (name, _id) in enumerate(pos):
        da = ds[name]
        vals = da.values if _id is None or 'individual' not in da.dims \
            else da.sel(individual=_id).values
        if not np.array_equal(np.asarray(vals, dtype=float), raw[:, :, k]):
            ctx.violation('entry_equals_raw_chain_entry',
                          'real_run_entry_mismatch',
                          {'parameter': name, 'id': _id}, feats)
            return
    if idx % 2 == 0:
        _INJECT['seen_opt'] = []
        transformed = idx % 4 == 0
        feats['search_space_transformation'] = transformed
        try:
            oc = chi.OptimisationController(post, seed=idx)
            oc.set_n_runs(2)
            oc.set_parallel_evaluation(False)
            oc.set_optimiser(pints.NelderMead)
            if transformed:
                # (defined for parameters of any sign)
                oc.set_transform(pints.ScalingTransformation(
                    np.full(post.n_parameters(), 2.5)))
            tab = oc.run(n_max_iterations=15)
        except Exception as e:      # noqa
            ctx.violation_exc('optimisation_controller_raises', e,
                              {'case': feats}, feats)
            return
        finally:
            seen = _INJECT.pop('seen_opt', None)
        ctx.count('real_runs')
        for r, (x, s) in enumerate(seen or []):
            rows = tab[tab['Run'] == r + 1]
            if len(rows) != len(x) or not np.array_equal(
                    rows['Estimate'].to_numpy(dtype=float), x):
                ctx.violation('optimisation_table_pairs_estimates',
                              'real_optimisation_mismatch', {'run': r + 1},
                              feats)
                return
            # the score listed next to the estimates is their log-posterior
            # (evaluated here, not taken from the optimiser)
            want = float(post(np.asarray(x, dtype=float)))
            got = rows['Score'].to_numpy(dtype=float)
            ctx.count('optimisation_scores_evaluated')
            if not np.all(np.abs(got - want) <= 1e-9 * (1 + abs(want))):
                ctx.violation('optimisation_table_pairs_estimates',
                              'score_is_not_the_score_of_the_estimate',
                              {'run': r + 1, 'listed': got[:3],
                               'log_posterior(estimates)': want,
                               'from optimiser': s}, feats)
                return


FAMILIES = [
    Family('dataset', dataset_case, quick=400, thorough=6000),
    Family('optimisation', optimisation_case, quick=120, thorough=2000),
    Family('initial', initial_case, quick=240, thorough=4000),
    Family('initial_located', initial_located_case, quick=200, thorough=3000),
    Family('initial_covariates', initial_covariates_case, quick=60,
           thorough=1500),
    Family('initial_distribution', initial_distribution_case, quick=20,
           thorough=200),
    Family('real_run', real_run_case, quick=8, thorough=40),
]
