"""
C14 - the problem controller builds exactly the posterior the dataset
describes.  Oracle: the posterior assembled by hand from the raw rows
(reference densities, a fresh mechanistic model per individual with that
individual's regimen set by hand, the C02 hierarchy reference); a tap on every
individual's owned mechanistic model checks the regimen it will be solved
under; metamorphic pairs for the invariances.
"""
import functools

import numpy as np
import pandas as pd
import pints
import myokit

from harness.bootstrap import load_chi
from harness.core import Family
from harness import gen_pop as GP
from harness import toys
from harness.oracle import densities as D
from harness.oracle.hierarchy import Hierarchy

chi = load_chi()

PROP = 'C14'
TITLE = 'problem controller builds exactly the posterior the dataset describes'
RULE = (
    'datasets: 1-6 individuals (int / str / float IDs), unbalanced times, '
    '1-2 modelled observables + decoy observables, covariate rows, dose rows '
    'with / without duration at individual-specific times, NaNs in values '
    'and times, renamed column keys, extra columns, non-unique index, row '
    'blocks interleaved (time order per (ID, observable) kept); models: '
    'analytic toy (1-2 outputs) and dosed library PK model; with / without '
    'population model (pooled, heterogeneous, non-centred, covariate parts), '
    'fixed parameters, explicit output / covariate mappings; metamorphic '
    'twins: unrelated rows / columns / observables added, ID dtype changed; '
    'signature = (model, population code, n_ids, id dtype, features); '
    'non-trivial = >=2 individuals or dosing or population model')
ASSUMPTIONS = [
    'reference densities / hierarchy layout as in C01 / C02',
    'SBML cases: reference integrator behind myokit.Simulation, brute-force '
    'reference solves a fresh model per individual (tolerance 1e-6)',
    'rows of one (ID, observable) appear in increasing time order (the '
    'likelihood documents increasing times); fully shuffled rows are a '
    'separate class where ValueError is a rejection',
]
ANCHORS = [
    'chi._problems.ProblemModellingController.set_data',
    'chi._problems.ProblemModellingController._create_log_likelihood',
    'chi._problems.ProblemModellingController._create_log_likelihoods',
    'chi._problems.ProblemModellingController._extract_dosing_regimens',
    'chi._problems.ProblemModellingController._extract_covariates',
    'chi._problems.ProblemModellingController.get_log_posterior',
]
REQUIRED = {'posteriors_compared': 100, 'hierarchical_posteriors': 30,
            'dosed_individuals_checked': 30, 'metamorphic_pairs': 60,
            'individual_posteriors': 30}

EMS = sorted(D.ERROR_MODELS)
POOL = np.array([0.25, 0.5, 1.0, 1.5, 2.0, 3.0, 4.5, 6.0])


class DataCase(object):
    def __init__(self, rng, idx):
        self.sbml = idx % 3 == 0
        self.n_ids = int(rng.integers(1, 7))
        if rng.random() < 0.08:
            # (ten and more individuals: '10' sorts before '2')
            self.n_ids = int(rng.integers(10, 14))
        self.id_style = ['int', 'str', 'float'][int(rng.integers(3))]
        self.labels = []
        for i in range(self.n_ids):
            self.labels.append({'int': 1 + 3 * i, 'str': 'pat-%s' % 'abcdefghijklmnop'[i],
                                'float': float(i + 1)}[self.id_style])
        perm = rng.permutation(self.n_ids)
        self.labels = [self.labels[i] for i in perm]
        self.keys = [str(l) for l in self.labels]
        if self.sbml:
            self.n_out = int(rng.integers(1, 3))
            self.outputs = ['central.drug_amount',
                            'central.drug_concentration'][:self.n_out]
            self.direct = bool(rng.integers(2))
            self.outputs_by_argument = idx % 2 == 1
        else:
            self.n_out = int(rng.integers(1, 3))
            self.outputs = ['Out %d' % (o + 1) for o in range(self.n_out)]
        self.em_names = [EMS[int(rng.integers(4))] for _ in range(self.n_out)]
        self.obs_names = ['biomarker %d' % o for o in range(self.n_out)] \
            if rng.random() < 0.5 else list(self.outputs)
        self.observable_codes = False
        if rng.random() < 0.15:
            # observables identified by integer codes (DVID style) and
            # mapped explicitly
            self.obs_names = [11 + o for o in range(self.n_out)]
            self.observable_codes = True
        # (two outputs may be compared with the same observable of the
        # dataset: two descriptions of one biomarker)
        self.shared_observable = self.n_out == 2 and rng.random() < 0.15
        if self.shared_observable:
            self.obs_names = [self.obs_names[0]] * 2
        self.map_explicit = self.obs_names != self.outputs or \
            rng.random() < 0.3
        self.map_reversed = bool(rng.integers(2))
        self.map_extra_key = rng.random() < 0.3
        # measurements
        self.replicates = False
        self.meas = {}
        for k in self.keys:
            self.meas[k] = []
            for o in range(self.n_out):
                n = int(rng.integers(1, 5))
                t = np.sort(rng.choice(POOL, size=n, replace=False))
                v = rng.uniform(0.5, 3.0, size=n)
                if rng.random() < 0.2:
                    # replicate assays of one sample: a second row at the
                    # same time, with another or with the very same reading
                    # (every row of the dataset is a measurement)
                    j = int(rng.integers(n))
                    t = np.insert(t, j + 1, t[j])
                    v = np.insert(v, j + 1, v[j] if rng.random() < 0.5
                                  else rng.uniform(0.5, 3.0))
                    self.replicates = True
                self.meas[k].append((t, v))
        if self.shared_observable:
            for k in self.keys:
                self.meas[k][1] = self.meas[k][0]
        # an individual may lack every measurement of one observable (only
        # the first biomarker was not assayed for that patient)
        self.lacks_output = None
        if self.n_out >= 2 and self.n_ids >= 2 and rng.random() < 0.3 \
                and not self.shared_observable:
            k = self.keys[int(rng.integers(self.n_ids))]
            o = 0 if rng.random() < 0.7 else int(rng.integers(self.n_out))
            self.meas[k][o] = (np.array([]), np.array([]))
            self.lacks_output = (k, o)
        # an individual may have no measurement at all (enrolled, dosed,
        # covariates recorded, every sample lost): it stays an individual
        # of the population
        self.lacks_all = None
        if self.n_ids >= 2 and rng.random() < 0.15:
            others = [k for k in self.keys if not (
                self.lacks_output and k == self.lacks_output[0])]
            k = others[int(rng.integers(len(others)))]
            # (every modelled observable keeps at least one measurement in
            # the dataset: an observable that never occurs is refused)
            if all(any(len(self.meas[k2][o][0]) for k2 in self.keys
                       if k2 != k) for o in range(self.n_out)):
                for o in range(self.n_out):
                    self.meas[k][o] = (np.array([]), np.array([]))
                self.lacks_all = k
        # doses
        self.doses = {k: [] for k in self.keys}
        self.with_duration_col = bool(rng.integers(2))
        # (a dosed model may come with a dataset without any dose rows)
        self.has_doses = rng.random() < (0.8 if self.sbml else 0.3)
        if self.has_doses:
            for k in self.keys:
                last = -1.0
                for s in np.sort(rng.uniform(0, 4, size=int(
                        rng.integers(0, 3)))):
                    s = float(max(s, last + 0.05))
                    d = float(rng.uniform(0.05, 0.4)) if (
                        self.with_duration_col and rng.random() < 0.7) \
                        else np.nan
                    a = float(rng.uniform(0.5, 3))
                    self.doses[k].append((s, d, a))
                    last = s + (0.01 if np.isnan(d) else d)
        # some dose events may be recorded ON a measurement row (a sample
        # taken at the moment of dosing): same time, dose and duration
        # columns filled in next to observable and value
        self.combined = {}
        if self.has_doses and rng.random() < 0.3:
            for k in self.keys:
                if rng.random() < 0.7 and len(self.meas[k][0][0]):
                    tt = float(self.meas[k][0][0][int(rng.integers(
                        len(self.meas[k][0][0])))])
                    d = float(rng.uniform(0.05, 0.2)) if (
                        self.with_duration_col and rng.random() < 0.5) \
                        else np.nan
                    self.doses[k] = [(tt, d, float(rng.uniform(0.5, 3)))]
                    self.combined[k] = tt
        # population
        self.pop = rng.random() < 0.55
        self.key_names = dict(id='ID', time='Time', obs='Observable',
                              value='Value', dose='Dose',
                              duration='Duration')
        if rng.random() < 0.3:
            self.key_names = dict(id='subject', time='t [h]',
                                  obs='what', value='y', dose='amount',
                                  duration='infusion')
        self.extra_cols = bool(rng.integers(2))
        self.dup_index = bool(rng.integers(2))

    # ----------------------------------------------------------- models
    def mech(self):
        if self.sbml:
            from chi.library import ModelLibrary
            m = ModelLibrary().one_compartment_pk_model()
            m.set_administration('central', direct=self.direct)
            m.set_outputs(self.outputs)
            return m
        return toys.ToyMulti(self.n_out)

    def error_models(self):
        return [getattr(chi, e)() for e in self.em_names]

    def indiv_names(self):
        m = self.mech()
        names = list(m.parameters())
        defaults = {
            'GaussianErrorModel': ['Sigma'],
            'MultiplicativeGaussianErrorModel': ['Sigma rel.'],
            'ConstantAndMultiplicativeGaussianErrorModel':
                ['Sigma base', 'Sigma rel.'],
            'LogNormalErrorModel': ['Sigma log']}
        for o, e in enumerate(self.em_names):
            for d in defaults[e]:
                names.append((self.outputs[o] + ' ' + d)
                             if self.n_out > 1 else d)
        return names

    # ------------------------------------------------------------ frame
    def frame(self, rng, decoys=True, shuffle='interleave', id_style=None,
              extra_rows=0, cov_first=False):
        kn = self.key_names
        blocks = []
        style = id_style or self.id_style

        def lab(i):
            if style == self.id_style:
                return self.labels[i]
            # another dtype that converts to the same string
            return str(self.labels[i])
        for i, k in enumerate(self.keys):
            if cov_first:
                # (baseline characteristics are recorded before the first
                # sample: the covariate rows open the individual's records)
                for cname, val in self.cov_rows(k):
                    blocks.append([{kn['id']: lab(i), kn['time']: np.nan,
                                    kn['obs']: cname,
                                    kn['value']: float(val)}])
            for o in range(self.n_out):
                if o == 1 and getattr(self, 'shared_observable', False):
                    continue        # (the rows of the shared observable)
                t, v = self.meas[k][o]
                blocks.append([{kn['id']: lab(i), kn['time']: float(tt),
                                kn['obs']: self.obs_names[o],
                                kn['value']: float(vv)}
                               for tt, vv in zip(t, v)])
                if o == 0 and k in self.combined:
                    for r in blocks[-1]:
                        if r[kn['time']] == self.combined[k]:
                            s_, d_, a_ = self.doses[k][0]
                            r[kn['dose']] = a_
                            if self.with_duration_col:
                                r[kn['duration']] = d_
                            # (one dose: a replicate row at the same time
                            # carries the measurement only)
                            break
            if k == getattr(self, 'lacks_all', None):
                # (the individual is in the dataset: a sample whose value
                # was lost)
                blocks.append([{kn['id']: lab(i), kn['time']: 1.1,
                                kn['obs']: self.obs_names[0],
                                kn['value']: np.nan}])
            if decoys:
                blocks.append([{kn['id']: lab(i), kn['time']: float(tt),
                                kn['obs']: 'decoy observable',
                                kn['value']: float(rng.uniform(0, 9))}
                               for tt in rng.permutation(POOL)[:2]])
                # rows with missing value / missing time
                blocks.append([{kn['id']: lab(i), kn['time']: 2.2,
                                kn['obs']: self.obs_names[0],
                                kn['value']: np.nan},
                               {kn['id']: lab(i), kn['time']: np.nan,
                                kn['obs']: self.obs_names[0],
                                kn['value']: 1.234}])
            for cname, val in ([] if cov_first else self.cov_rows(k)):
                blocks.append([{kn['id']: lab(i), kn['time']: np.nan,
                                kn['obs']: cname, kn['value']: float(val)}])
            if self.has_doses and k not in self.combined:
                rows = []
                for s, d, a in self.doses[k]:
                    r = {kn['id']: lab(i), kn['time']: s, kn['obs']: np.nan,
                         kn['value']: np.nan, kn['dose']: a}
                    if self.with_duration_col:
                        r[kn['duration']] = d
                    rows.append(r)
                blocks.append(rows)
        for _ in range(extra_rows):
            i = int(rng.integers(self.n_ids))
            blocks.append([{kn['id']: lab(i), kn['time']: float(
                rng.uniform(0, 5)), kn['obs']: 'another unrelated thing',
                kn['value']: float(rng.normal())}])
        blocks = [b for b in blocks if b]
        rows = []
        if shuffle == 'interleave':
            # first row of the first individual's first block stays first so
            # that the order of first appearance of the IDs is kept
            heads = [0] * len(blocks)
            order_ids = []
            pending = list(range(len(blocks)))
            # emit one row of each individual's first block in ID order
            first_of = {}
            for bi, b in enumerate(blocks):
                first_of.setdefault(str(b[0][kn['id']]), bi)
            for k in self.keys:
                bi = first_of[k]
                rows.append(blocks[bi][0])
                heads[bi] = 1
            while True:
                avail = [bi for bi in range(len(blocks))
                         if heads[bi] < len(blocks[bi])]
                if not avail:
                    break
                bi = avail[int(rng.integers(len(avail)))]
                rows.append(blocks[bi][heads[bi]])
                heads[bi] += 1
        else:
            for b in blocks:
                rows += b
        df = pd.DataFrame(rows)
        for col in (kn['dose'], kn['duration']):
            if self.has_doses and col not in df.columns and (
                    col == kn['dose'] or self.with_duration_col):
                df[col] = np.nan
        if shuffle == 'full':
            df = df.iloc[rng.permutation(len(df))]
        if self.extra_cols:
            df['site'] = 'A'
            df['weight note'] = np.arange(len(df)) * 0.5
        if self.dup_index:
            df.index = np.zeros(len(df), dtype=int)
        else:
            df = df.reset_index(drop=True)
        return df

    def cov_rows(self, k):
        if not getattr(self, 'cov_values', None):
            return []
        return [(n, self.cov_values[k][j])
                for j, n in enumerate(self.cov_obs_names)] + \
            [(n, self.cov_values[k][j] + 7.0) for j, n in enumerate(
                getattr(self, 'cov_decoy_names', []))]

    # ------------------------------------------------------- reference
    def protocol(self, k):
        p = myokit.Protocol()
        for s, d, a in self.doses[k]:
            dd = 0.01 if np.isnan(d) else d
            p.add(myokit.ProtocolEvent(a / dd, s, dd))
        return p

    def indiv_ref(self, k):
        """callable psi_full -> log-likelihood of individual k (float)"""
        meas = self.meas[k]
        n_mech = self.mech().n_parameters()
        if self.sbml:
            model = self.mech()
            model.set_dosing_regimen(self.protocol(k))
        n_out = self.n_out

        def f(psi):
            psi = np.real(np.asarray(psi)).astype(float)
            s, start = 0.0, n_mech
            if self.sbml:
                allt = np.unique(np.concatenate([t for t, _ in meas]))
                y = model.simulate(psi[:n_mech], allt)
            for o in range(n_out):
                npar, dens = D.ERROR_MODELS[self.em_names[o]]
                p = psi[start:start + npar]
                start += npar
                t, v = meas[o]
                if self.sbml:
                    ybar = np.array([y[o, np.flatnonzero(allt == tt)[0]]
                                     for tt in t])
                else:
                    ybar = np.real(toys.toy_multi_ref(psi, t, o, n_out))
                s += float(np.sum(np.real(dens(v, ybar, p))))
            return s
        return f


def _setup_controller(case, df, ctx, feats):
    kn = case.key_names
    if case.sbml and getattr(case, 'outputs_by_argument', False):
        # the user's model still has its default outputs; the outputs of
        # the problem are named when the controller is created
        from chi.library import ModelLibrary
        m_ = ModelLibrary().one_compartment_pk_model()
        m_.set_administration('central', direct=case.direct)
        if len(case.outputs) == 2:
            # (the user's model returns the same outputs in another order)
            m_.set_outputs(list(case.outputs)[::-1])
        c = chi.ProblemModellingController(
            m_, case.error_models(), outputs=list(case.outputs))
    else:
        c = chi.ProblemModellingController(case.mech(), case.error_models())
    kw = dict(id_key=kn['id'], time_key=kn['time'], obs_key=kn['obs'],
              value_key=kn['value'])
    if case.has_doses:
        kw['dose_key'] = kn['dose']
        kw['dose_duration_key'] = kn['duration'] \
            if case.with_duration_col else None
    elif case.sbml:
        kw['dose_key'] = None
        kw['dose_duration_key'] = None
    else:
        kw['dose_key'] = kn['dose'] if kn['dose'] in df.columns else None
        kw['dose_duration_key'] = None
    if case.map_explicit:
        # the mapping is a dictionary: its insertion order is arbitrary and
        # it may carry entries for outputs the model does not have
        items = list(zip(case.outputs, case.obs_names))
        if getattr(case, 'map_reversed', False):
            items = items[::-1]
        if getattr(case, 'map_extra_key', False):
            items = [('not an output of this model', case.obs_names[0])] \
                + items
        kw['output_observable_dict'] = dict(items)
    return c, kw


_CREATED = {'on': False, 'lls': []}
_PATCHED = False


def _patch():
    """class-level tap: individual log-likelihoods created by the
    controller are recorded (there is no public accessor for them)"""
    global _PATCHED
    if _PATCHED:
        return
    _PATCHED = True
    orig = chi.LogLikelihood.__init__

    @functools.wraps(orig)
    def init(self, *a, **k):
        orig(self, *a, **k)
        if _CREATED['on']:
            _CREATED['lls'].append(self)
    chi.LogLikelihood.__init__ = init


def posterior_case(ctx, rng, idx):
    _CREATED['on'] = False
    case = DataCase(rng, idx)
    feats = {'sbml': case.sbml, 'n_ids': case.n_ids, 'population': case.pop,
             'id_style': case.id_style, 'doses': case.has_doses,
             'duration_column': case.with_duration_col,
             'explicit_mapping': case.map_explicit,
             'integer_observable_codes': case.observable_codes,
             'mapping_reversed': case.map_explicit and case.map_reversed,
             'mapping_extra_key': case.map_explicit and case.map_extra_key,
             'renamed_keys': case.key_names['id'] != 'ID',
             'individual_lacks_an_observable': case.lacks_output is not None,
             'individual_without_measurements': case.lacks_all is not None}
    names_ind = case.indiv_names()
    n_ind = len(names_ind)
    # population model (decided before the frame because of covariate rows)
    leaves = None
    if case.pop:
        case.leaves = GP.random_composition(
            rng, case.n_ids, total_dim=n_ind, p_cov=0.3, cov_kinds='GLT',
            p_partial=0.0)
        leaves = case.leaves
        h = Hierarchy(leaves, case.n_ids)
        case.cov_obs_names = ['covariate %d' % j for j in range(h.n_cov)]
        cov = rng.uniform(-1, 1, size=(case.n_ids, h.n_cov))
        case.cov_values = {k: cov[i] for i, k in enumerate(case.keys)}
        feats['population_code'] = [GP.leaf_code(l) for l in leaves]
    shuffle = 'full' if idx % 11 == 0 else 'interleave'
    feats['shuffle'] = shuffle
    unique_cov = leaves is not None and sum(
        1 for l in leaves if l.cov) <= 1
    # covariates either carry the data's names, or (single covariate
    # sub-model only) keep their defaults and are mapped explicitly
    rename = not (unique_cov and rng.random() < 0.5)
    case.cov_decoy_names = []
    if leaves is not None and h.n_cov and not rename and rng.random() < 0.5:
        # unrelated rows of an observable that happens to carry the model's
        # default covariate name: the explicit mapping decides
        case.cov_decoy_names = ['Cov. %d' % (j + 1) for j in range(h.n_cov)]
    feats['decoy_named_like_default_covariate'] = bool(case.cov_decoy_names)
    # a plain dataset in a quarter of the cases: nothing but the modelled
    # observables and the covariates, the covariate rows first
    plain = rng.random() < (0.7 if (
        case.n_out == 1 and not case.map_explicit and leaves is not None
        and h.n_cov) else 0.2)
    feats['plain_dataset_covariates_first'] = plain
    df = case.frame(rng, shuffle=shuffle, decoys=not plain,
                    cov_first=plain)
    ctx.case(('sbml' if case.sbml else 'toy',
              '+'.join(feats.get('population_code', ['-'])),
              min(case.n_ids, 3), case.id_style, case.has_doses,
              case.map_explicit, shuffle),
             case.n_ids >= 2 or case.has_doses or case.pop,
             sample=dict(feats, head=df.head(6).to_dict('records')))
    digest = pd.util.hash_pandas_object(df, index=True).sum(), \
        list(df.columns), list(df.dtypes.astype(str))
    c, kw = _setup_controller(case, df, ctx, feats)
    try:
        pm_set_first = bool(rng.integers(2))
        if leaves is not None:
            pm = _pop_model(case, leaves, rename)
            if h.n_cov and not rename:
                kw['covariate_dict'] = dict(zip(
                    pm.get_covariate_names(), case.cov_obs_names))
        feats['covariates_renamed'] = rename
        # (an explicit covariate mapping is given with set_data, before or
        # after the population model is set)
        feats['population_model_set_first'] = pm_set_first
        if leaves is not None and pm_set_first:
            c.set_population_model(pm)
        if case.sbml and rng.random() < 0.4:
            # the controller has seen another dataset before (the same
            # measurements with a dose for everybody): the posterior is
            # that of the dataset set last
            kn_ = case.key_names
            prev = df.copy()
            extra = pd.DataFrame([
                {kn_['id']: v_, kn_['time']: 0.123, kn_['dose']: 7.5}
                for v_ in pd.unique(df[kn_['id']])])
            prev = pd.concat([prev, extra], ignore_index=True)
            kw_prev = dict(kw)
            kw_prev['dose_key'] = kn_['dose']
            kw_prev['dose_duration_key'] = kn_['duration'] if (
                kn_['duration'] in prev.columns) else None
            feats['earlier_dataset'] = True
            try:
                c.set_data(prev, **kw_prev)
                ctx.count('earlier_datasets')
            except Exception:       # noqa
                feats['earlier_dataset'] = 'refused'
        c.set_data(df, **kw)
        if leaves is not None and not pm_set_first:
            c.set_population_model(pm)
    except ValueError as e:
        if shuffle == 'full':
            ctx.reject('shuffled rows: ' + str(e)[:40])
            return
        ctx.violation_exc('set_data_raises', e, {'case': feats}, feats)
        return
    except Exception as e:      # noqa
        ctx.violation_exc('set_data_raises', e, {'case': feats}, feats)
        return
    now = pd.util.hash_pandas_object(df, index=True).sum(), \
        list(df.columns), list(df.dtypes.astype(str))
    if now != digest:
        ctx.violation('caller_frame_unchanged', 'set_data_mutated_frame',
                      {'case': feats}, feats)
    # fixed parameters
    fixed = {}
    names = c.get_parameter_names()
    x_ind = _indiv_point(case, rng, names_ind)
    if leaves is None:
        full_vals = dict(zip(names_ind, x_ind))
    else:
        hh, xv, _ = GP.hierarchy_vector(rng, leaves, case.n_ids)
        full_vals = dict(zip(names, xv[hh.n_bottom:]))
    if rng.random() < 0.4 and len(set(names)) == len(names) and \
            len(names) > 1:
        k = int(rng.integers(1, len(names)))
        pick = [names[i] for i in rng.permutation(len(names))[:k]]
        fixed = {n: float(full_vals[n]) for n in pick}
        try:
            c.fix_parameters(fixed)
        except Exception as e:      # noqa
            ctx.violation_exc('fix_parameters_raises', e, {'case': feats},
                              feats)
            return
    feats['fixed'] = sorted(fixed)
    free_names = [n for n in names if n not in fixed]
    if c.get_parameter_names() != free_names or \
            c.get_n_parameters() != len(free_names):
        ctx.violation('controller_names', 'controller_names_after_fix',
                      {'names': c.get_parameter_names(),
                       'expected': free_names}, feats)
        return
    mu = rng.uniform(0.2, 0.8, size=len(free_names))
    prior = pints.ComposedLogPrior(*[
        pints.GaussianLogPrior(float(m_), 2.0) for m_ in mu])
    try:
        c.set_log_prior(prior)
    except Exception as e:      # noqa
        ctx.violation_exc('set_log_prior_raises', e, {'case': feats}, feats)
        return

    if leaves is None:
        # ------------------------------------------------ individual
        which = int(rng.integers(case.n_ids))
        key = case.keys[which]
        arg = key
        if rng.random() < 0.3:
            # default individual: the first ID of the dataset
            arg = None
            key = str(df[case.key_names['id']].iloc[0])
        try:
            post = c.get_log_posterior(individual=arg)
        except ValueError as e:
            if shuffle == 'full':
                ctx.reject('shuffled rows: ' + str(e)[:40])
                return
            ctx.violation_exc('get_log_posterior_raises', e,
                              {'case': feats}, feats)
            return
        except Exception as e:      # noqa
            ctx.violation_exc('get_log_posterior_raises', e,
                              {'case': feats}, feats)
            return
        x = np.array([full_vals[n] for n in free_names])
        ref_ll = case.indiv_ref(key)(x_ind_with(full_vals, names_ind))
        ref = ref_ll + float(np.sum(D.norm_logpdf(x, mu, 2.0)))
        _compare(ctx, case, post, x, ref, feats, 'individual', df)
        ctx.count('individual_posteriors')
        if post.get_id() != key:
            ctx.violation('posterior_id', 'individual_id',
                          {'id': post.get_id(), 'expected': key}, feats)
        _check_regimens(ctx, case, [post.get_log_likelihood()], [key],
                        feats)
        _metamorphic(ctx, rng, case, post(x), x, feats, leaves, fixed, mu,
                     individual=key)
        _history(ctx, rng, case, c, df, kw, post(x), x, feats, None,
                 individual=arg)
        return
    # ---------------------------------------------------- hierarchical
    _patch()
    _CREATED['lls'] = []
    _CREATED['on'] = True
    try:
        post = c.get_log_posterior()
        created = list(_CREATED['lls'])
        _CREATED['on'] = False
    except ValueError as e:
        if shuffle == 'full':
            ctx.reject('shuffled rows: ' + str(e)[:40])
            return
        ctx.violation_exc('get_log_posterior_raises', e, {'case': feats},
                          feats)
        return
    except Exception as e:      # noqa
        ctx.violation_exc('get_log_posterior_raises', e, {'case': feats},
                          feats)
        return
    free_top = np.array([n not in fixed for n in names])
    x = np.concatenate([xv[:hh.n_bottom], xv[hh.n_bottom:][free_top]])
    if not isinstance(post, chi.HierarchicalLogPosterior):
        ctx.violation('posterior_type', 'not_hierarchical', {}, feats)
        return
    # the published IDs say which individual sits at which position
    ids = list(post.get_id(unique=True))
    if sorted(ids) != sorted(case.keys) or (
            shuffle != 'full' and ids != case.keys):
        ctx.violation('posterior_id', 'hierarchical_id_order',
                      {'ids': ids, 'expected': case.keys}, feats)
        return
    fs = [case.indiv_ref(k) for k in ids]
    cov = np.array([case.cov_values[k] for k in ids]) \
        if hh.n_cov else None
    ref = float(np.real(hh.score(xv, fs, cov))) + float(np.sum(
        D.norm_logpdf(xv[hh.n_bottom:][free_top], mu, 2.0)))
    ctx.count('hierarchical_posteriors')
    _compare(ctx, case, post, x, ref, feats, 'hierarchical', df)
    created = sorted(created, key=lambda ll: ids.index(ll.get_id())
                     if ll.get_id() in ids else -1)
    _check_regimens(ctx, case, created, ids, feats)
    _metamorphic(ctx, rng, case, post(x), x, feats, leaves, fixed, mu,
                 rename=rename, cov_dict=kw.get('covariate_dict'))
    _history(ctx, rng, case, c, df, kw, post(x), x, feats, pm)


def _history(ctx, rng, case, c, df, kw, value, x, feats, pm,
             individual=None):
    """things that happen around a configured controller and must not
    change the posterior it builds: a set_data call that is refused, a
    sibling controller configured with the same population model object,
    edits of the regimens the controller reported"""
    kinds = ['failed_set_data', 'edit_reported_regimens']
    if pm is not None:
        kinds.append('sibling_controller')
    kind = kinds[int(rng.integers(len(kinds)))]
    names_before = list(c.get_parameter_names())
    try:
        if kind == 'failed_set_data':
            bad = df.copy()
            vk = case.key_names['value']
            rows = np.where(bad[vk].notnull())[0]
            if not len(rows):
                return
            bad[vk] = bad[vk].astype(object)
            bad.iloc[int(rows[int(rng.integers(len(rows)))]),
                     list(bad.columns).index(vk)] = '<LOQ'
            try:
                c.set_data(bad, **kw)
                return          # accepted: nothing to compare
            except Exception:   # noqa
                pass
        elif kind == 'edit_reported_regimens':
            regs = c.get_dosing_regimens()
            if not regs:
                return
            for r in regs.values():
                if r is not None:
                    r.schedule(100.0, 0.73210987, 0.1)
        else:
            idk = case.key_names['id']
            # (an individual with measurements of every mapped observable)
            firsts = [v for v in pd.unique(df[idk]) if not (
                case.lacks_output and str(v) == case.lacks_output[0])
                and str(v) != case.lacks_all]
            if not firsts:
                return
            first = firsts[0]
            sub = df[df[idk] == first]
            c2, kw2 = _setup_controller(case, sub, ctx, feats)
            c2.set_population_model(pm)
            c2.set_data(sub, **kw)
    except Exception as e:      # noqa
        ctx.violation_exc('history_step_raises', e,
                          {'step': kind, 'case': feats}, feats)
        return
    ctx.count('controller_histories')
    try:
        names_after = list(c.get_parameter_names())
        post2 = c.get_log_posterior(individual=individual) \
            if pm is None else c.get_log_posterior()
        v2 = post2(x)
    except Exception as e:      # noqa
        ctx.violation_exc('posterior_after_history_raises', e,
                          {'step': kind, 'case': feats}, feats)
        return
    if names_after != names_before or not ctx.close(
            v2, value, rtol=1e-9, scale=abs(value) + 10):
        ctx.violation('posterior_unaffected_by_history',
                      'changed_by:' + kind,
                      {'before': value, 'after': v2,
                       'names before': names_before,
                       'names after': names_after, 'case': feats}, feats)


def _pop_model(case, leaves, rename):
    """population model whose covariates are named per sub-model (the
    composite has no API to rename them afterwards)"""
    models = [GP.build_chi_leaf(l, case.n_ids) for l in leaves]
    j = 0
    for l, m in zip(leaves, models):
        if l.cov:
            n = l.cov['n_cov']
            if rename:
                m.set_covariate_names(case.cov_obs_names[j:j + n])
            j += n
    pm = models[0] if len(models) == 1 else \
        chi.ComposedPopulationModel(models)
    pm.set_n_ids(case.n_ids)
    return pm


def x_ind_with(vals, names_ind):
    return np.array([vals[n] for n in names_ind])


def _indiv_point(case, rng, names_ind):
    n_mech = case.mech().n_parameters()
    if case.sbml:
        mech = rng.uniform(0.4, 1.5, n_mech)
    else:
        mech = toys.toy_multi_params(rng, case.n_out)
    return np.concatenate([mech, rng.uniform(0.2, 0.6,
                                             len(names_ind) - n_mech)])


def _compare(ctx, case, post, x, ref, feats, tag, df):
    try:
        val = post(x)
    except Exception as e:      # noqa
        ctx.violation_exc('posterior_evaluation_raises', e,
                          {'case': feats}, feats)
        return
    ctx.count('posteriors_compared')
    sc = abs(ref) + 10
    rtol = 1e-6 if case.sbml else 1e-9
    ctx.maximum('value_relerr_' + tag + ('_sbml' if case.sbml else ''),
                ctx.relerr(val, ref, scale=sc))
    if not ctx.close(val, ref, rtol=rtol, scale=sc):
        ctx.violation('posterior_equals_hand_assembled',
                      'posterior_mismatch:' + tag,
                      {'controller': val, 'hand_assembled': ref,
                       'case': feats,
                       'frame_head': df.head(12).to_dict('records')}, feats)


def _check_regimens(ctx, case, lls, keys, feats):
    """the owned mechanistic model of each individual holds its regimen"""
    if not case.sbml:
        return
    for ll, k in zip(lls, keys):
        m = ll.get_submodels()['Mechanistic model']
        r = m.dosing_regimen()
        got = [] if r is None else sorted(
            (e.start(), e.duration(), e.level() * e.duration())
            for e in r.events())
        want = sorted((s, 0.01 if np.isnan(d) else d, a)
                      for s, d, a in case.doses[k])
        ctx.count('dosed_individuals_checked')
        if len(got) != len(want) or (want and not np.allclose(
                np.array(got), np.array(want), rtol=1e-9)):
            ctx.violation('individual_solved_under_its_own_regimen',
                          'owned_model_regimen_mismatch',
                          {'id': k, 'regimen': got, 'dose_rows': want},
                          feats)


def _metamorphic(ctx, rng, case, value, x, feats, leaves, fixed, mu,
                 individual=None, rename=True, cov_dict=None):
    """twin datasets that must give the same posterior value"""
    if feats.get('shuffle') == 'full':
        return      # the twin would list the individuals in another order
    variants = [('no_decoys', dict(decoys=False)),
                ('extra_rows', dict(extra_rows=5)),
                ('ids_as_strings', dict(id_style='as_str'))]
    name, kw = variants[int(rng.integers(len(variants)))]
    old_extra = case.extra_cols
    if name == 'extra_rows':
        case.extra_cols = not case.extra_cols
    df2 = case.frame(rng, **kw)
    case.extra_cols = old_extra
    c, skw = _setup_controller(case, df2, ctx, feats)
    try:
        if leaves is not None:
            c.set_population_model(_pop_model(case, leaves, rename))
        if cov_dict is not None:
            skw['covariate_dict'] = cov_dict
        c.set_data(df2, **skw)
        if fixed:
            c.fix_parameters(fixed)
        c.set_log_prior(pints.ComposedLogPrior(*[
            pints.GaussianLogPrior(float(m_), 2.0) for m_ in mu]))
        post2 = c.get_log_posterior(individual=individual) \
            if leaves is None else c.get_log_posterior()
        v2 = post2(x)
    except Exception as e:      # noqa
        ctx.violation_exc('metamorphic_twin_raises', e,
                          {'variant': name, 'case': feats}, feats)
        return
    ctx.count('metamorphic_pairs')
    if not ctx.close(v2, value, rtol=1e-9, scale=abs(value) + 10):
        ctx.violation('invariant_under_unrelated_changes',
                      'not_invariant:' + name,
                      {'original': value, 'twin': v2, 'case': feats}, feats)


FAMILIES = [
    Family('posterior', posterior_case, quick=320, thorough=5000),
]
