"""
C06 - samplers draw from the distribution their log-likelihood scores.
Oracle: probability-integral transform of the samples through the CDF of the
scored density (reference distribution, tied to chi's own log-density at the
sample points in the same case) -> Kolmogorov-Smirnov; exact support checks;
rank-correlation for independence; quadrature moments for reported moments.
"""
import numpy as np
from scipy import stats
from scipy.integrate import quad

from harness.bootstrap import load_chi
from harness.core import Family
from harness import gen_pop as GP
from harness.oracle import densities as D
from harness.oracle import stats as S
from harness.oracle.hierarchy import Hierarchy

chi = load_chi()

PROP = 'C06'
TITLE = 'samplers draw from the distribution the log-likelihood scores'
RULE = (
    'error-model family: 4 classes (+ReducedErrorModel with fixed subsets) x '
    'parameter draws x output vectors of mixed scale, N draws per time '
    'point; population family: every leaf class (centred / non-centred, '
    'n_dim 1-3), covariate models (one or several covariate rows, partial '
    'selections), composed and reduced models; per configuration PIT+KS per '
    'dimension, support, independence across dimensions / time points, '
    'density parity at sample points; moments family: get_mean_and_std '
    'against quadrature; signature = (class code, regime bucket); '
    'non-trivial = every case (each is a distinct distribution)')
ASSUMPTIONS = [
    'scipy.stats distributions and quad are correct',
    'the scored density is tied to the reference distribution inside each '
    'case by comparing chi log-density and reference log-pdf at sample '
    'points (1e-9)',
    'family-wise false-alarm probability per run <= 1e-9 (DKW bound, '
    'Bonferroni over <= 2e5 tests); chi samplers are seeded so a given '
    'VERIF_SEED is deterministic',
]
ANCHORS = ['chi._error_models.%s.sample' % c for c in D.ERROR_MODELS] + [
    'chi._population_models.%s.sample' % c for c in (
        'GaussianModel', 'LogNormalModel', 'TruncatedGaussianModel',
        'PooledModel', 'HeterogeneousModel', 'ComposedPopulationModel',
        'CovariatePopulationModel', 'ReducedPopulationModel')]
REQUIRED = {'ks_tests': 100, 'density_parity_points': 100,
            'independence_tests': 30, 'moment_checks': 10}

N = {'quick': 20000, 'thorough': 200000}


def _n(ctx):
    return N[ctx.tier]


def _ks(ctx, u, label, feats, detail):
    d = S.ks_uniform(u)
    crit = S.ks_crit(len(u))
    ctx.count('ks_tests')
    ctx.maximum('ks_D_over_crit', d / crit)
    if d > crit:
        ctx.violation('pit_ks', 'ks_reject:' + label,
                      dict(detail, D=d, critical=crit, n=len(u)), feats)
        return False
    return True


# ------------------------------------------------------------ error models
def _em_cdf(cname, p, ybar):
    if cname == 'GaussianErrorModel':
        return stats.norm(ybar, p[0])
    if cname == 'MultiplicativeGaussianErrorModel':
        return stats.norm(ybar, p[0] * ybar)
    if cname == 'ConstantAndMultiplicativeGaussianErrorModel':
        return stats.norm(ybar, p[0] + p[1] * ybar)
    return stats.lognorm(s=p[0], scale=np.exp(np.log(ybar) - p[0] ** 2 / 2))


EM = sorted(D.ERROR_MODELS)


def error_model_case(ctx, rng, idx):
    cname = EM[idx % 4]
    npar, ref = D.ERROR_MODELS[cname]
    model = getattr(chi, cname)()
    full = np.exp(rng.uniform(np.log(0.05), np.log(1.5), size=npar))
    if cname == 'ConstantAndMultiplicativeGaussianErrorModel':
        full[0] = np.exp(rng.uniform(np.log(0.05), np.log(3)))
    free = np.ones(npar, dtype=bool)
    wrapper = 'bare'
    if rng.random() < 0.3:
        model = chi.ReducedErrorModel(model)
        wrapper = 'reduced'
        names = model.get_parameter_names()
        fi = rng.permutation(npar)[:int(rng.integers(0, npar + 1))]
        if len(fi):
            model.fix_parameters({names[i]: float(full[i]) for i in fi})
            free[fi] = False
    n_t = int(rng.integers(1, 5))
    ybar = np.exp(rng.uniform(np.log(0.3), np.log(40), size=n_t))
    n = _n(ctx)
    seed = int(rng.integers(1, 2 ** 31))
    feats = {'class': cname, 'wrapper': wrapper, 'parameters': full,
             'model_output': ybar}
    ctx.case((cname, wrapper, tuple(free), n_t,
              tuple(np.round(np.log10(full), 0))), True, sample=feats)
    # the parameters are "an array-like object": an array, or a pandas
    # Series labelled with the parameter names (a slice of an estimate
    # table), as the scoring methods take it
    p_arg = full[free]
    feats['parameter_container'] = 'array'
    if rng.random() < 0.4 and len(p_arg):
        import pandas as pd
        p_arg = pd.Series(full[free], index=list(model.get_parameter_names()))
        feats['parameter_container'] = 'series'
    try:
        samples = np.asarray(model.sample(p_arg, ybar, n_samples=n,
                                          seed=seed))
    except Exception as e:      # noqa
        ctx.violation_exc('sample_raises', e, {'case': feats}, feats)
        return
    if samples.shape != (n_t, n):
        ctx.violation('sample_shape', 'sample_shape:' + cname,
                      {'shape': samples.shape, 'expected': (n_t, n)}, feats)
        return
    for j in range(n_t):
        dist = _em_cdf(cname, full, ybar[j])
        s = samples[j]
        # density parity at a few sample points
        pts = s[:5]
        lp = model.compute_pointwise_ll(full[free], np.full(5, ybar[j]), pts)
        ctx.count('density_parity_points', 5)
        if not ctx.close(lp, dist.logpdf(pts), rtol=1e-9, atol=1e-9):
            ctx.violation('density_parity', 'density_parity:' + cname,
                          {'chi': lp, 'reference': dist.logpdf(pts)}, feats)
        if cname == 'LogNormalErrorModel' and np.any(s <= 0):
            ctx.violation('support', 'support:' + cname,
                          {'min': float(np.min(s))}, feats)
        ok = _ks(ctx, dist.cdf(s), cname, dict(feats, time_index=j),
                 {'time_index': j, 'ybar': ybar[j], 'parameters': full,
                  'sample_mean': float(np.mean(s)),
                  'sample_std': float(np.std(s)),
                  'density_std': float(dist.std())})
        if not ok and cname == 'ConstantAndMultiplicativeGaussianErrorModel':
            # defect model of the known finding: variances add in quadrature
            alt = stats.norm(ybar[j], np.sqrt(full[0] ** 2 +
                                              (full[1] * ybar[j]) ** 2))
            d_alt = S.ks_uniform(alt.cdf(s))
            ctx.violations[-1]['detail']['D_quadrature_model'] = d_alt
            ctx.violations[-1]['detail']['matches_quadrature_model'] = bool(
                d_alt <= S.ks_crit(n))
    # independence across time points (standardised residual ranks)
    if n_t >= 2:
        a, b = rng.choice(n_t, size=2, replace=False)
        r = S.spearman(samples[a], samples[b])
        ctx.count('independence_tests')
        ctx.maximum('abs_rank_corr_over_crit', abs(r) / S.corr_crit(n))
        if abs(r) > S.corr_crit(n):
            ctx.violation('independence', 'correlated_time_points:' + cname,
                          {'r': r, 'critical': S.corr_crit(n),
                           'times': [int(a), int(b)]}, feats)
    # n_samples=None gives one draw per time point
    one = np.asarray(model.sample(full[free], ybar, seed=seed))
    if one.shape != (n_t, 1):
        ctx.violation('sample_shape', 'sample_shape_default:' + cname,
                      {'shape': one.shape}, feats)


# ------------------------------------------------------- population models
def _leaf_dist(leaf, th_i, d):
    """scipy distribution of psi for individual parameters th_i (p, dims)"""
    mu, sd = th_i[0, d], th_i[1, d]
    if leaf.kind == 'G':
        return stats.norm(mu, sd)
    if leaf.kind == 'L':
        return stats.lognorm(s=sd, scale=np.exp(mu))
    return stats.truncnorm(a=(0 - mu) / sd, b=np.inf, loc=mu, scale=sd)


def population_case(ctx, rng, idx):
    n = _n(ctx)
    n_ids_h = int(rng.integers(2, 6))
    mode = ['leaf', 'leaf', 'cov', 'composed', 'reduced', 't_mixed'][idx % 6]
    if mode == 't_mixed':
        # truncated Gaussian whose dimensions are in different regimes
        # (means far above zero next to means close to zero)
        leaves = [GP.make_leaf('T', int(rng.integers(2, 4)))]
    elif mode == 'leaf':
        leaves = [GP.random_leaf(rng, n_ids_h, p_cov=0.0)]
    elif mode == 'cov':
        leaves = [GP.random_leaf(rng, n_ids_h, kinds='GLT', p_cov=1.0)]
    else:
        leaves = GP.random_composition(rng, n_ids_h, max_parts=3, max_dim=2,
                                       p_cov=0.3, cov_kinds='GLT')
    codes = [GP.leaf_code(l) for l in leaves]
    h = Hierarchy(leaves, n_ids_h)
    try:
        model = GP.build_chi(leaves, n_ids_h,
                             force_composed=(mode == 'composed'))
    except Exception as e:      # noqa
        ctx.violation_exc('construction_raises', e, {'leaves': codes})
        return
    top = np.concatenate([GP.leaf_top(rng, l, n_ids_h, strong_cov=True)
                          for l in leaves])
    if mode == 't_mixed':
        d_ = leaves[0].n_dim
        sd_ = rng.uniform(0.3, 2.0, d_)
        ratio = rng.uniform(-1.0, 2.0, d_)
        far = rng.permutation(d_) < int(rng.integers(1, d_))
        ratio[far] = rng.uniform(10, 40, int(np.sum(far)))
        top = np.concatenate([sd_ * ratio, sd_])
    scale_cov = 1.0
    free = np.ones(len(top), dtype=bool)
    if mode == 'reduced':
        names = model.get_parameter_names()
        model = chi.ReducedPopulationModel(model)
        fi = rng.permutation(len(top))[:int(rng.integers(0, len(top)))]
        if len(set(names)) == len(names) and len(fi):
            model.fix_parameters({names[i]: float(top[i]) for i in fi})
            free[fi] = False
    cov = None
    cov_mode = None
    if h.n_cov:
        cov_mode = ['row', 'matrix'][int(rng.integers(2))]
        if cov_mode == 'row':
            cov = np.broadcast_to(
                rng.uniform(-1, 1, size=(1, h.n_cov)) * scale_cov,
                (n, h.n_cov)).copy()
            cov_arg = cov[0]
        else:
            cov = rng.uniform(-1, 1, size=(n, h.n_cov)) * scale_cov
            cov_arg = cov
    feats = {'leaves': codes, 'mode': mode, 'n_ids_heterogeneous': n_ids_h,
             'parameters': top, 'fixed': (~free).tolist(),
             'covariates': cov_mode}
    ctx.case(('+'.join(codes), mode, cov_mode), True, sample=feats)
    seed = int(rng.integers(1, 2 ** 31))
    kw = {'covariates': cov_arg} if h.n_cov else {}
    # one array for the free parameters, used for sampling and afterwards
    # for the transform - as a caller would
    theta = np.array(top[free], dtype=float)
    try:
        eta = np.asarray(model.sample(theta, n_samples=n, seed=seed,
                                      **kw), dtype=float)
    except Exception as e:      # noqa
        ctx.violation_exc('sample_raises', e, {'case': feats}, feats)
        return
    if eta.shape != (n, h.n_dim):
        ctx.violation('sample_shape', 'sample_shape:population',
                      {'shape': eta.shape, 'expected': (n, h.n_dim)}, feats)
        return
    # transform to individual parameters with the model's own transform
    # (a heterogeneous part ties the number of individuals to its parameter
    # count, so compositions with one are transformed part by part)
    try:
        if any(l.kind == 'H' for l in leaves):
            psi = np.empty(eta.shape)
            it0 = d0 = c0 = 0
            for l in leaves:
                nt = l.n_top(n_ids_h)
                if l.kind == 'H':
                    psi[:, d0:d0 + l.n_dim] = eta[:, d0:d0 + l.n_dim]
                else:
                    m1 = GP.build_chi_leaf(l, n)
                    m1.set_n_ids(n)
                    kw1 = {'covariates': cov[:, c0:c0 + l.n_cov()]} \
                        if l.cov else {}
                    psi[:, d0:d0 + l.n_dim] = \
                        m1.compute_individual_parameters(
                            top[it0:it0 + nt], eta[:, d0:d0 + l.n_dim], **kw1)
                it0 += nt
                d0 += l.n_dim
                c0 += l.n_cov()
        else:
            model.set_n_ids(n)
            psi = np.asarray(model.compute_individual_parameters(
                theta, eta, **({'covariates': cov} if h.n_cov else {})),
                dtype=float)
    except Exception as e:      # noqa
        ctx.violation_exc('transform_raises', e, {'case': feats}, feats)
        return
    it = idim = ic = 0
    cols = []
    for l in leaves:
        nt = l.n_top(n_ids_h)
        ltop = top[it:it + nt]
        lcov = None
        if l.cov:
            lcov = cov[:, ic:ic + l.n_cov()]
            ic += l.n_cov()
        code = GP.leaf_code(l).rstrip('0123456789')
        if l.kind == 'H' and not l.cov:
            # the density is a point mass on each individual's whole
            # parameter VECTOR: a sampled row is one of the rows
            rows = ltop[:n_ids_h * l.n_dim].reshape(n_ids_h, l.n_dim)
            blk = psi[:, idim:idim + l.n_dim]
            ok = (blk[:, None, :] == rows[None, :, :]).all(axis=2).any(axis=1)
            ctx.count('heterogeneous_rows_checked', len(blk))
            if not np.all(ok):
                ctx.violation('support', 'heterogeneous_sample_mixes_rows',
                              {'rows': rows, 'sampled row that is no row':
                               blk[int(np.argmin(ok))],
                               'n_not_a_row': int(np.sum(~ok))}, feats)
        for d in range(l.n_dim):
            col = psi[:, idim + d]
            if l.kind == 'P':
                th = np.real(l.vartheta(ltop, lcov, n))
                if not np.array_equal(col, th[:, 0, d]):
                    ctx.violation('support', 'pooled_sample_not_parameter',
                                  {'dim': d}, feats)
                continue
            if l.kind == 'H':
                vals = ltop[:n_ids_h * l.n_dim].reshape(
                    n_ids_h, l.n_dim)[:, d]
                if not np.all(np.isin(col, vals)):
                    ctx.violation('support', 'heterogeneous_sample_not_a_row',
                                  {'dim': d}, feats)
                    continue
                for v in np.unique(vals):
                    k = int(np.sum(col == v))
                    p = float(np.mean(vals == v))
                    ctx.count('binomial_tests')
                    if not S.binom_tail_ok(k, n, p):
                        ctx.violation('pit_ks', 'heterogeneous_frequencies',
                                      {'count': k, 'n': n, 'p': p}, feats)
                continue
            th = np.real(l.vartheta(ltop, lcov, n))    # (n, 2, dims)
            mu, sd = th[:, 0, d], th[:, 1, d]
            if l.kind == 'G':
                u = stats.norm.cdf(col, mu, sd)
                lpdf = stats.norm.logpdf(col[:5], mu[:5], sd[:5])
            elif l.kind == 'L':
                if np.any(col <= 0):
                    ctx.violation('support', 'support:' + code,
                                  {'min': float(col.min())}, feats)
                    continue
                u = stats.norm.cdf(np.log(col), mu, sd)
                lpdf = stats.norm.logpdf(np.log(col[:5]), mu[:5], sd[:5]) \
                    - np.log(col[:5])
            else:
                if np.any(col < 0):
                    ctx.violation('support', 'support:' + code,
                                  {'min': float(col.min())}, feats)
                    continue
                a = (0 - mu) / sd
                u = stats.truncnorm.cdf(col, a, np.inf, loc=mu, scale=sd)
                lpdf = stats.truncnorm.logpdf(col[:5], a[:5], np.inf,
                                              loc=mu[:5], scale=sd[:5])
            _ks(ctx, u, code, dict(feats, dim=idim + d),
                {'dim': idim + d, 'leaf': GP.leaf_code(l),
                 'sample_min': float(col.min()),
                 'sample_mean': float(col.mean()),
                 'mu_first': float(mu[0]), 'sd_first': float(sd[0])})
            cols.append(u)
            # density parity: chi's own density of the first 5 individuals
            if l.centered or l.kind == 'T':
                m1 = GP.build_chi_leaf(l, 5)
                m1.set_n_ids(5)
                obs5 = psi[:5, idim:idim + l.n_dim]
                kw5 = {'covariates': lcov[:5]} if l.cov else {}
                lp_all = m1.compute_log_likelihood(ltop, obs5, **kw5)
                # reference for all dims of the leaf
                ref = float(np.real(l.logp(
                    l.vartheta(ltop, None if lcov is None else lcov[:5], 5),
                    obs5.astype(complex))))
                ctx.count('density_parity_points', 5)
                if not ctx.close(lp_all, ref, rtol=1e-9, scale=abs(ref) + 1):
                    ctx.violation('density_parity', 'density_parity:' + code,
                                  {'chi': lp_all, 'reference': ref}, feats)
        it += nt
        idim += l.n_dim
    # independence across dimensions (also across sub-models)
    if len(cols) >= 2:
        a, b = rng.choice(len(cols), size=2, replace=False)
        r = S.spearman(cols[a], cols[b])
        ctx.count('independence_tests')
        ctx.maximum('abs_rank_corr_over_crit', abs(r) / S.corr_crit(n))
        if abs(r) > S.corr_crit(n):
            ctx.violation('independence', 'correlated_dimensions',
                          {'r': r, 'critical': S.corr_crit(n),
                           'columns': [int(a), int(b)]}, feats)


def moments_case(ctx, rng, idx):
    kind = 'LT'[idx % 2]
    n_dim = int(rng.integers(1, 4))
    leaf = GP.make_leaf(kind, n_dim)
    model = GP.build_chi_leaf(leaf, 1)
    regime = 'regular'
    if kind == 'L':
        theta = np.concatenate([rng.uniform(-1, 1, n_dim),
                                rng.uniform(0.1, 0.9, n_dim)])
        if rng.random() < 0.3:
            # nearly deterministic parameters: any positive scale is in the
            # support
            regime = 'tiny_scale'
            theta[n_dim:] = 10.0 ** rng.uniform(-9, -3, n_dim)
    else:
        theta = np.concatenate([rng.uniform(-1, 3, n_dim),
                                rng.uniform(0.3, 2, n_dim)])
        if rng.random() < 0.3:
            # truncation in the upper tail of the untruncated Gaussian
            regime = 'tail'
            theta[:n_dim] = -theta[n_dim:] * rng.uniform(4, 40, n_dim)
    form = ['flat', 'matrix'][int(rng.integers(2))]
    arg = theta if form == 'flat' else theta.reshape(2, n_dim)
    feats = {'class': GP.leaf_code(leaf), 'parameters': theta, 'form': form,
             'regime': regime}
    ctx.case(('moments', GP.leaf_code(leaf), form, regime), True,
             sample=feats)
    try:
        out = np.asarray(model.get_mean_and_std(arg), dtype=float)
    except Exception as e:      # noqa
        ctx.violation_exc('moments_raise', e, {'case': feats}, feats)
        return
    ctx.count('moment_checks')
    if out.shape != (2, n_dim):
        ctx.violation('moment_shape', 'moment_shape:' + kind,
                      {'shape': out.shape, 'expected': (2, n_dim)}, feats)
        return
    for d in range(n_dim):
        mu, sd = theta[d], theta[n_dim + d]

        dist = _leaf_dist(leaf, theta.reshape(2, n_dim), d)
        m1, s1 = dist.mean(), dist.std()
        if regime == 'tiny_scale':
            # (closed form without the cancellation in exp(s^2) - 1)
            m1 = np.exp(mu + sd ** 2 / 2)
            s1 = m1 * np.sqrt(np.expm1(sd ** 2))
        elif regime == 'tail':
            # hazard of the standard normal at a = -mu/sd through erfcx, and
            # the excess h - a through its asymptotic series for large a
            from scipy.special import erfcx
            a = -mu / sd
            hz = np.sqrt(2 / np.pi) / erfcx(a / np.sqrt(2))
            ex = hz - a
            if a > 25:
                ex = 1 / a - 2 / a ** 3 + 10 / a ** 5 - 74 / a ** 7
                var = 1 / a ** 2 - 6 / a ** 4 + 50 / a ** 6 - 518 / a ** 8
            else:
                var = 1 - hz * ex
            m1, s1 = sd * ex, sd * np.sqrt(var)
        # (the documented moment formulas subtract terms of size a^2 that
        # leave 1/a^2, a = -mu/sigma: rounding errors grow like eps * a^4 -
        # the numerical limit recorded in DESIGN R6)
        tol = 1e-7
        if regime == 'tail':
            tol += 2e-13 * float(-mu / sd) ** 4
        if not (ctx.close(out[0, d], m1, rtol=tol) and
                ctx.close(out[1, d], s1, rtol=tol)):
            ctx.violation('reported_moments', 'moments_mismatch:' + kind,
                          {'chi': out[:, d], 'reference': [m1, s1],
                           'dim': d}, feats)
    # chi's own density integrates to the same moments (n_dim = 1 only)
    if n_dim == 1 and regime == 'regular':
        mu, sd = theta

        def dens(v):
            return float(np.exp(model.compute_log_likelihood(
                theta, np.array([[v]]))))
        lo = 1e-12 if kind == 'L' else 0.0
        pts = sorted(set([lo] + list(np.clip(
            (np.exp(mu + sd * np.array([-6, -3, -1, 0, 1, 3, 6]))
             if kind == 'L' else mu + sd * np.array([-6, -3, -1, 0, 1, 3, 6])),
            lo, None))))
        pts = [p for p in pts if p >= lo]
        m0 = m1_ = m2 = 0.0
        edges = pts + [np.inf]
        for a, b in zip(edges[:-1], edges[1:]):
            m0 += quad(dens, a, b, limit=200)[0]
            m1_ += quad(lambda v: v * dens(v), a, b, limit=200)[0]
            m2 += quad(lambda v: v * v * dens(v), a, b, limit=200)[0]
        sd_q = np.sqrt(max(m2 / m0 - (m1_ / m0) ** 2, 0))
        ctx.count('quadrature_moment_checks')
        ctx.maximum('density_mass_err', abs(m0 - 1))
        if abs(m0 - 1) > 1e-6 or not ctx.close(out[0, 0], m1_ / m0, rtol=1e-5)\
                or not ctx.close(out[1, 0], sd_q, rtol=1e-5):
            ctx.violation('reported_moments',
                          'moments_vs_own_density:' + kind,
                          {'chi': out[:, 0], 'mass': m0,
                           'quadrature': [m1_ / m0, sd_q]}, feats)


def covariate_columns_case(ctx, rng, idx):
    """composites with SEVERAL covariate-dependent sub-models: every
    sub-model is sampled conditional on ITS OWN covariate columns.  The
    covariate-dependent sub-models are pooled (or centred with a tiny scale),
    so every sampled entry is determined by the covariates it depends on."""
    n_sub = int(rng.integers(2, 5))
    models, spec, top = [], [], []
    n_cov_total = 0
    for j in range(n_sub):
        kind = 'PGLTN'[int(rng.integers(5))]
        if j < 2 and kind == 'N':
            kind = 'P'          # at least two covariate-dependent ones
        if kind == 'N':
            # a plain sub-model in between
            models.append(chi.PooledModel())
            spec.append(('N', 0, None, None))
            top += [float(rng.uniform(1, 2))]
            continue
        n_cov = int(rng.integers(1, 3))
        under = {'P': chi.PooledModel, 'G': chi.GaussianModel,
                 'L': chi.LogNormalModel,
                 'T': chi.TruncatedGaussianModel}[kind]()
        cpm = chi.CovariatePopulationModel(
            under, chi.LinearCovariateModel(n_cov=n_cov))
        if kind != 'P':
            cpm.set_population_parameters([[0, 0]])
        if rng.random() < 0.3:
            cpm = chi.ReducedPopulationModel(cpm)
        a0 = float(rng.uniform(1, 2))
        beta = rng.uniform(0.3, 1.0, size=n_cov)
        top += {'P': [a0], 'G': [a0, 1e-6], 'T': [a0, 1e-6],
                'L': [float(np.log(a0)), 1e-7]}[kind] + list(beta)
        models.append(cpm)
        spec.append((kind, n_cov, a0, beta))
        n_cov_total += n_cov
    pop = chi.ComposedPopulationModel(models)
    n = int(rng.integers(1, 9))
    cov = rng.uniform(0, 3, size=(n, n_cov_total))
    feats = {'family': 'covariate_columns',
             'sub_models': ''.join(k for k, _, _, _ in spec), 'n_samples': n}
    ctx.case(('covariate_columns', feats['sub_models'], min(n, 3)), True,
             sample=dict(feats, covariates=cov, parameters=top))
    try:
        psi = np.asarray(pop.sample(
            top, n_samples=n, seed=int(rng.integers(1000)),
            covariates=cov if rng.random() < 0.5 else cov.tolist()),
            dtype=float)
    except Exception as e:      # noqa
        ctx.violation_exc('sample_raises', e, {'case': feats}, feats)
        return
    ctx.count('covariate_column_samples', n)
    if psi.shape != (n, n_sub):
        ctx.violation('sample_shape', 'sample_shape:covariate_columns',
                      {'shape': psi.shape}, feats)
        return
    c0 = 0
    for j, (kind, n_cov, a0, beta) in enumerate(spec):
        if kind == 'N':
            continue
        lin = cov[:, c0:c0 + n_cov] @ beta
        want = np.exp(np.log(a0) + lin) if kind == 'L' else a0 + lin
        c0 += n_cov
        if np.max(np.abs(psi[:, j] - want) / (1 + np.abs(want))) > 1e-4:
            first = cov[:, :n_cov] @ beta
            ctx.violation(
                'samples_conditional_on_own_covariates',
                'covariate_columns_of_another_sub_model',
                {'sub_model': j, 'kind': kind, 'sampled': psi[:, j],
                 'expected': want,
                 'with_the_first_columns': np.exp(np.log(a0) + first)
                 if kind == 'L' else a0 + first}, feats)
            return


def default_size_case(ctx, rng, idx):
    """sample(parameters) without a sample size is ONE draw from the same
    stream: equal to n_samples=1 with the same seed, shape (1, n_dim)"""
    n_ids = int(rng.integers(1, 4))
    leaves = GP.random_composition(rng, n_ids, max_parts=3, max_dim=2,
                                   kinds='GLTPH', p_cov=0.3,
                                   cov_kinds='GLTP')
    force = len(leaves) > 1 or bool(rng.integers(2))
    model = GP.build_chi(leaves, n_ids, force_composed=force)
    if rng.random() < 0.3:
        model = chi.ReducedPopulationModel(model)
    top = np.concatenate([GP.leaf_top(rng, l, n_ids) for l in leaves])
    h = Hierarchy(leaves, n_ids)
    kw = {}
    if h.n_cov:
        kw['covariates'] = rng.uniform(-1, 1, size=(1, h.n_cov))
    seed = int(rng.integers(0, 1000))
    codes = [GP.leaf_code(l) for l in leaves]
    feats = {'family': 'default_size', 'leaves': codes}
    ctx.case(('default_size', '+'.join(codes)), True, sample=feats)
    try:
        a = np.asarray(model.sample(top, seed=seed, **kw), dtype=float)
        b = np.asarray(model.sample(top, n_samples=1, seed=seed, **kw),
                       dtype=float)
    except Exception as e:      # noqa
        ctx.violation_exc('sample_raises', e, {'case': feats}, feats)
        return
    ctx.count('default_size_samples')
    if a.shape != (1, h.n_dim) or not np.array_equal(a, b, equal_nan=True):
        ctx.violation('default_sample_size_is_one', 'default_sample_size',
                      {'default': a, 'n_samples=1': b}, feats)


def heterogeneous_joint_case(ctx, rng, idx):
    """samples of a heterogeneous model are INDEPENDENT draws of one of the
    individuals: two samples of one call coincide with probability 1 / n_ids
    (drawing without replacement never repeats an individual), each
    individual is drawn with probability 1 / n_ids, also when as many or
    fewer samples than individuals are requested"""
    n_ids = int(rng.integers(2, 6))
    n_dim = int(rng.integers(1, 3))
    n_samples = int(rng.integers(2, n_ids + 2))
    wrapper = ['bare', 'composed', 'reduced'][idx % 3]
    model = chi.HeterogeneousModel(n_dim=n_dim, n_ids=n_ids)
    rows = rng.permutation(n_ids * n_dim).astype(float).reshape(
        n_ids, n_dim) + 1.0
    top = rows.flatten()
    col = 0
    if wrapper == 'composed':
        model = chi.ComposedPopulationModel([chi.PooledModel(), model])
        top = np.concatenate([[9.5], top])
        col = 1
    elif wrapper == 'reduced':
        model = chi.ReducedPopulationModel(model)
    model.set_n_ids(n_ids)
    feats = {'family': 'heterogeneous_joint', 'n_ids': n_ids,
             'n_samples': n_samples, 'wrapper': wrapper}
    ctx.case(('heterogeneous_joint', n_ids, n_samples, wrapper), True,
             sample=feats)
    n_seeds = 600 if ctx.tier == 'quick' else 3000
    start = int(rng.integers(0, 10 ** 6))
    same = 0
    first = np.zeros(n_ids, dtype=int)
    try:
        for sd in range(start, start + n_seeds):
            s_ = np.asarray(model.sample(top, n_samples=n_samples, seed=sd),
                            dtype=float)
            a, b = s_[0, col:col + n_dim], s_[1, col:col + n_dim]
            same += int(np.array_equal(a, b))
            hit = [i for i in range(n_ids) if np.array_equal(a, rows[i])]
            if len(hit) != 1:
                ctx.violation('heterogeneous_sample_is_an_individual',
                              'heterogeneous_row', {'sample': s_}, feats)
                return
            first[hit[0]] += 1
    except Exception as e:      # noqa
        ctx.violation_exc('sample_raises', e, {'case': feats}, feats)
        return
    ctx.count('independence_tests')
    p = 1.0 / n_ids
    if not S.binom_tail_ok(same, n_seeds, p):
        ctx.violation('independence', 'heterogeneous_samples_not_independent',
                      {'pairs that coincide': same, 'of': n_seeds,
                       'expected fraction': p}, feats)
        return
    for i in range(n_ids):
        if not S.binom_tail_ok(int(first[i]), n_seeds, p,
                               alpha=S.ALPHA_TEST / n_ids):
            ctx.violation('independence', 'heterogeneous_individuals_not_'
                          'equally_likely', {'counts': first.tolist(),
                                             'of': n_seeds}, feats)
            return


def truncated_tail_case(ctx, rng, idx):
    """truncated Gaussian far in the tail (mean 4 to 12 standard deviations
    below zero: a population concentrated just above zero), sampled through
    every route that reaches the sampler - integer seed, Generator seed,
    inside a composite, under a covariate model that shifts the mean there:
    samples are finite, inside the support and follow the scored density"""
    from scipy.special import log_ndtr
    route = ['integer', 'generator', 'composed', 'covariate',
             'reduced'][idx % 5]
    sigma = float(rng.uniform(0.3, 2.0))
    ratio = -float(rng.uniform(4.0, 12.0))
    mu = ratio * sigma
    n = 4000 if ctx.tier == 'quick' else 40000
    seed = int(rng.integers(1, 2 ** 31))
    feats = {'family': 'truncated_tail', 'route': route,
             'mean_over_sd': round(ratio, 1)}
    ctx.case(('truncated_tail', route, int(ratio)), True,
             sample=dict(feats, mu=mu, sigma=sigma))
    try:
        t = chi.TruncatedGaussianModel()
        if route == 'integer':
            x = t.sample([mu, sigma], n_samples=n, seed=seed)
        elif route == 'generator':
            x = t.sample([mu, sigma], n_samples=n,
                         seed=np.random.default_rng(seed))
        elif route == 'composed':
            m = chi.ComposedPopulationModel([chi.PooledModel(), t])
            x = np.asarray(m.sample([1.0, mu, sigma], n_samples=n,
                                    seed=seed))[:, 1:]
        elif route == 'reduced':
            m = chi.ReducedPopulationModel(chi.ComposedPopulationModel(
                [t, chi.PooledModel()]))
            m.fix_parameters({m.get_parameter_names()[-1]: 1.0})
            x = np.asarray(m.sample([mu, sigma], n_samples=n,
                                    seed=seed))[:, :1]
        else:
            m = chi.CovariatePopulationModel(
                t, chi.LinearCovariateModel(n_cov=1))
            m.set_population_parameters([[0, 0]])
            beta = -float(rng.uniform(1, 3))
            c_ = (mu - 0.5) / beta      # 0.5 + beta * c = mu
            x = m.sample([0.5, sigma, beta], n_samples=n, seed=seed,
                         covariates=[c_])
        x = np.asarray(x, dtype=float).ravel()
    except Exception as e:      # noqa
        ctx.violation_exc('sample_raises', e, {'case': feats}, feats)
        return
    ctx.count('tail_samples', len(x))
    if len(x) != n or not np.all(np.isfinite(x)) or np.any(x < 0):
        ctx.violation('samples_inside_support', 'tail_samples_outside:T',
                      {'n': len(x), 'non_finite': int(np.sum(
                          ~np.isfinite(x))), 'negative': int(np.sum(x < 0)),
                       'case': feats}, feats)
        return
    # cdf of the truncated Gaussian, evaluated with log survival functions
    u = 1.0 - np.exp(log_ndtr(-(x - mu) / sigma) - log_ndtr(mu / sigma))
    _ks(ctx, u, 'T:tail:' + route, feats, {'mu': mu, 'sigma': sigma})


FAMILIES = [
    Family('truncated_tail', truncated_tail_case, quick=40, thorough=200),
    Family('heterogeneous_joint', heterogeneous_joint_case, quick=24,
           thorough=120),
    Family('default_size', default_size_case, quick=60, thorough=600),
    Family('covariate_columns', covariate_columns_case, quick=60,
           thorough=600),
    Family('error_model', error_model_case, quick=64, thorough=480),
    Family('population', population_case, quick=80, thorough=600),
    Family('moments', moments_case, quick=64, thorough=600),
]
