"""
C07 - covariate population models shift the selected population parameters
linearly and otherwise behave like the underlying model evaluated per
individual.  Oracle: the underlying chi model evaluated separately for every
individual at vartheta_i (relational), the reference densities, complex-step
gradients; beta names by perturbation observed through a tap on the
underlying model's public methods.
"""
import functools

import numpy as np

from harness.bootstrap import load_chi
from harness.core import Family
from harness import gen_pop as GP
from harness.oracle import densities as D
from harness.oracle.hierarchy import Hierarchy

chi = load_chi()

PROP = 'C07'
TITLE = 'covariate models shift the selected parameters linearly'
RULE = (
    'cases = (underlying Gaussian / LogNormal (centred, non-centred) / '
    'TruncatedGaussian / Pooled / Heterogeneous, n_dim 1-12, 1-3 covariates, '
    'selection = default (all) or any non-empty list of in-range '
    '[parameter, dimension] pairs in random order with duplicates, given as '
    'list / tuple / ndarray, 1-6 individuals); special cases beta = 0 and '
    'chi = 0; the exhaustive family lists every non-empty selection for '
    'p<=2, d<=2; signature = (class, n_dim bucket, n_cov, selection kind, '
    'container, zero case); non-trivial = >1 selected pair or n_dim>1 or '
    'n_cov>1')
ASSUMPTIONS = [
    'beta and covariates are drawn so that every shifted scale stays '
    'positive (otherwise chi rightly scores -inf: not judged)',
    'for pooled / heterogeneous underlying models the per-individual '
    'reference is the point-mass model of the documentation',
]
ANCHORS = [
    'chi._covariate_models.LinearCovariateModel.compute_population_parameters',
    'chi._covariate_models.LinearCovariateModel.compute_sensitivities',
    'chi._covariate_models.LinearCovariateModel.set_population_parameters',
    'chi._population_models.CovariatePopulationModel.compute_log_likelihood',
    'chi._population_models.CovariatePopulationModel.compute_sensitivities',
    'chi._population_models.CovariatePopulationModel.compute_individual_parameters',
    'chi._population_models.CovariatePopulationModel.set_population_parameters',
    'chi._population_models.CovariatePopulationModel.sample',
]
REQUIRED = {'relation_compared': 200, 'gradient_compared': 200,
            'beta_names_checked': 200, 'selections_with_duplicates': 20,
            'selections_over_16_pairs': 5, 'zero_cases': 20,
            'sample_ks_tests': 40}

KINDS = [('G', True), ('G', False), ('L', True), ('L', False), ('T', True),
         ('P', True), ('H', True)]
_TAP = {'on': False, 'args': []}
_PATCHED = False


def _patch():
    global _PATCHED
    if _PATCHED:
        return
    _PATCHED = True
    for cname in ('GaussianModel', 'LogNormalModel', 'TruncatedGaussianModel',
                  'PooledModel', 'HeterogeneousModel'):
        cls = getattr(chi, cname)
        orig = cls.compute_log_likelihood

        @functools.wraps(orig)
        def wrapped(self, parameters, observations, *a, _orig=orig, **k):
            if _TAP['on']:
                _TAP['args'].append(np.array(parameters, dtype=float))
            return _orig(self, parameters, observations, *a, **k)
        cls.compute_log_likelihood = wrapped


def _underlying(kind, n_dim, centered, n_ids, late=False):
    leaf = GP.make_leaf(kind, n_dim, centered, 0, None, n_ids)
    if late and kind == 'H':
        # created for one individual: the covariate wrapper's set_n_ids has
        # to pass the number of individuals on
        return leaf, chi.HeterogeneousModel(n_dim=n_dim)
    return leaf, GP.build_chi_leaf(leaf, n_ids)


def _selection(rng, npd, n_dim, mode):
    full = [(p, d) for p in range(npd) for d in range(n_dim)]
    if mode == 'default':
        return None, full
    k = int(rng.integers(1, len(full) + 1))
    pick = [full[i] for i in rng.permutation(len(full))[:k]]
    if mode == 'duplicates':
        pick = pick + [pick[int(rng.integers(len(pick)))]
                       for _ in range(int(rng.integers(1, 4)))]
        pick = [pick[i] for i in rng.permutation(len(pick))]
    return pick, sorted(set(pick))


def _container(rng, sel):
    c = int(rng.integers(3))
    if c == 0:
        return [list(s) for s in sel], 'list'
    if c == 1:
        return tuple(tuple(s) for s in sel), 'tuple'
    return np.array(sel), 'ndarray'


def run_case(ctx, rng, kind, centered, n_dim, n_cov, n_ids, sel_mode,
             zero=None, given=None):
    _patch()
    late = kind == 'H' and bool(rng.integers(2))
    leaf0, base = _underlying(kind, n_dim, centered, n_ids, late)
    npd = GP.n_per_dim(leaf0, n_ids)
    if given is None:
        given, sel = _selection(rng, npd, n_dim, sel_mode)
    else:
        sel = sorted(set(given))
    cont = 'default'
    feats = {'class': GP.leaf_code(leaf0), 'kind': kind, 'n_dim': n_dim,
             'n_cov': n_cov, 'n_ids': n_ids, 'selection_mode': sel_mode,
             'n_selected': len(sel), 'zero': zero, 'late_n_ids': late}
    custom_names = n_dim >= 2 and rng.random() < 0.3
    feats['custom_parameter_then_dim_names'] = bool(custom_names)
    if custom_names:
        # (the user's population model names its parameters per dimension:
        # 'Mean CL', 'Mean V', ...)
        bn = base.get_parameter_names(exclude_dim_names=True)
        base.set_parameter_names(['%s/%d' % (n_, j) for j, n_ in
                                  enumerate(bn)])
    model = chi.CovariatePopulationModel(
        base, chi.LinearCovariateModel(n_cov=n_cov))
    model.set_n_ids(n_ids)
    if late:
        base.set_n_ids(n_ids)       # the harness's own copy, for reference
    if given is not None:
        # the object may have carried other selections before (re-selection
        # replaces them): random ones and ones of the same size with the
        # dimensions / parameter rows exchanged
        n_prev = int(rng.integers(0, 3)) if rng.random() < 0.5 else 0
        feats['earlier_selections'] = n_prev
        for _ in range(n_prev):
            if rng.random() < 0.6 and (n_dim > 1 or npd > 1):
                pd_ = rng.permutation(n_dim)
                pp_ = rng.permutation(npd)
                prev = [(int(pp_[p_]), int(pd_[d_])) for p_, d_ in given]
            else:
                prev, _ = _selection(rng, npd, n_dim, 'random')
            try:
                model.set_population_parameters(_container(rng, prev)[0])
                model.get_parameter_names()
            except Exception as e:      # noqa
                ctx.violation_exc('in_range_selection_accepted', e,
                                  {'selection': prev, 'case': feats}, feats)
                return
            ctx.count('reselections')
        arg, cont = _container(rng, given)
        try:
            model.set_population_parameters(arg)
        except Exception as e:      # noqa
            ctx.violation_exc('in_range_selection_accepted', e,
                              {'selection': given, 'container': cont,
                               'case': feats}, feats)
            return
        if len(set(given)) != len(given):
            ctx.count('selections_with_duplicates')
    if len(sel) > 16:
        ctx.count('selections_over_16_pairs')
    feats['container'] = cont
    ctx.case((GP.leaf_code(leaf0).rstrip('0123456789'), min(n_dim, 4), n_cov,
              sel_mode, cont, zero, len(sel) > 16),
             len(sel) > 1 or n_dim > 1 or n_cov > 1,
             sample=dict(feats, selection=given))
    leaf = GP.make_leaf(kind, n_dim, centered, n_cov, sel, n_ids)
    if custom_names and not late:
        # ... and names the dimensions afterwards
        model.set_dim_names(['dim %d' % c_ for c_ in range(n_dim)])
    if not custom_names and rng.random() < 0.3:
        # resetting names that were never customised changes nothing
        feats['names_reset_to_default'] = True
        ctx.count('names_reset_to_default')
        try:
            model.set_parameter_names(None)
        except Exception as e:      # noqa
            ctx.violation_exc('evaluation_raises', e,
                              {'case': feats,
                               'call': 'set_parameter_names(None)'}, feats)
            return
    # ---- counts and names
    names = model.get_parameter_names()
    n_expected = npd * n_dim + len(sel) * n_cov
    # (a coefficient is named after the population parameter it shifts, as
    # the model itself publishes that parameter)
    base_names = list(names[:npd * n_dim]) if custom_names \
        else base.get_parameter_names()
    cov_names = list(model.get_covariate_names())
    # what a getter hands out is the caller's: editing it is not a
    # configuration call
    for getter in (model.get_covariate_names, model.get_parameter_names,
                   model.get_dim_names):
        got = getter()
        if isinstance(got, list):
            got.reverse()
            got.append('edited by the caller')
    if model.get_parameter_names() != names or \
            list(model.get_covariate_names()) != cov_names:
        ctx.violation('names_identify_parameter_dimension_covariate',
                      'names_changed_by_editing_a_returned_list',
                      {'before': names, 'after': model.get_parameter_names(),
                       'covariate_names': model.get_covariate_names()}, feats)
        return
    if model.n_parameters() != n_expected or len(names) != n_expected:
        ctx.violation('parameter_count', 'count_mismatch',
                      {'n_parameters': model.n_parameters(),
                       'names': len(names), 'expected': n_expected,
                       'selection': given, 'case': feats}, feats)
        return
    # ---- parameters in the support
    top = GP.leaf_top(rng, leaf, n_ids)
    nb = leaf.n_base(n_ids)
    cov = rng.uniform(-1, 1, size=(n_ids, n_cov))
    cov[np.abs(cov) < 0.05] = 0.3
    if zero == 'beta':
        top[nb:] = 0.0
    elif zero == 'covariates':
        cov[:] = 0.0
    if zero:
        ctx.count('zero_cases')
    th = np.real(leaf.vartheta(top, cov, n_ids))        # (n, p, d)
    if kind in 'PH':
        # point-mass models need the individual parameters bit for bit, as
        # the hierarchical likelihood obtains them: from the model itself
        # (compared with the reference below)
        try:
            obs = np.array(model.compute_individual_parameters(
                top, np.zeros((n_ids, n_dim)), cov), dtype=float)
        except Exception as e:      # noqa
            ctx.violation_exc('evaluation_raises', e,
                              {'case': feats,
                               'call': 'individual_parameters'}, feats)
            return
    else:
        obs = GP.leaf_bottom(rng, leaf, n_ids)
    top.setflags(write=False)
    cov.setflags(write=False)
    obs.setflags(write=False)

    # ---- vartheta seen by the underlying model (tap) + relation
    _TAP['args'][:] = []
    _TAP['on'] = True
    try:
        val = model.compute_log_likelihood(top, obs, cov)
    except Exception as e:      # noqa
        _TAP['on'] = False
        ctx.violation_exc('evaluation_raises', e, {'case': feats}, feats)
        return
    _TAP['on'] = False
    seen = _TAP['args'][-1] if _TAP['args'] else None
    ctx.count('relation_compared')
    if seen is None or seen.shape != th.shape or not ctx.close(
            seen, th, rtol=1e-13, atol=1e-15):
        ctx.violation('linear_shift_of_selected_parameters',
                      'vartheta_mismatch:' + kind,
                      {'seen': seen, 'reference': th, 'selection': given,
                       'case': feats}, feats)
    # per-individual evaluation of the *underlying chi model*
    ref = 0.0
    if kind in 'GLT':
        one = GP.build_chi_leaf(leaf0, 1)
        one.set_n_ids(1)
        for i in range(n_ids):
            ref += one.compute_log_likelihood(th[i], obs[i:i + 1])
    sc = abs(ref) + 1
    if not ctx.close(val, ref, rtol=1e-10, scale=sc):
        ctx.violation('equals_underlying_model_per_individual',
                      'likelihood_relation:' + kind,
                      {'covariate_model': val, 'per_individual': ref,
                       'selection': given, 'case': feats}, feats)
    # one-dimensional models also take the individual parameters as a flat
    # vector of length n_ids (and as a list)
    if n_dim == 1 and kind in 'GLT':
        try:
            flat = obs[:, 0].copy()
            v_flat = model.compute_log_likelihood(
                top, flat if rng.random() < 0.5 else flat.tolist(), cov)
            ctx.count('flat_observation_vectors')
            if not ctx.close(v_flat, ref, rtol=1e-10, scale=sc):
                ctx.violation('equals_underlying_model_per_individual',
                              'likelihood_relation_flat_observations:' + kind,
                              {'covariate_model': v_flat,
                               'per_individual': ref, 'case': feats}, feats)
        except Exception as e:      # noqa
            ctx.violation_exc('evaluation_raises', e,
                              {'case': feats, 'call': 'flat observations'},
                              feats)
    # individual parameters
    try:
        psi = np.asarray(model.compute_individual_parameters(
            top, obs, cov), dtype=float)
    except Exception as e:      # noqa
        ctx.violation_exc('evaluation_raises', e,
                          {'case': feats, 'call': 'individual_parameters'},
                          feats)
        return
    if kind in 'GLT':
        one = GP.build_chi_leaf(leaf0, 1)
        one.set_n_ids(1)
        psi_ref = np.vstack([one.compute_individual_parameters(
            th[i], obs[i:i + 1]) for i in range(n_ids)])
    elif kind == 'P':
        psi_ref = th[:, 0, :]
    else:
        psi_ref = np.array([th[i, i, :] for i in range(n_ids)])
    if psi.shape != (n_ids, n_dim) or not ctx.close(psi, psi_ref,
                                                    rtol=1e-12):
        ctx.violation('equals_underlying_model_per_individual',
                      'psi_relation:' + kind,
                      {'covariate_model': psi, 'per_individual': psi_ref,
                       'case': feats}, feats)
    # the optional flag return_eta: models with bottom-level parameters
    # hand back the fluctuations they were given, models without any (pooled,
    # heterogeneous) still return the covariate-shifted parameters
    try:
        psi_e = np.asarray(model.compute_individual_parameters(
            top, obs, cov, return_eta=True), dtype=float)
        ctx.count('return_eta_calls')
        want_e = np.asarray(obs, dtype=float) if kind in 'GLT' else psi_ref
        if psi_e.shape != (n_ids, n_dim) or not ctx.close(
                psi_e, want_e, rtol=1e-12):
            ctx.violation('equals_underlying_model_per_individual',
                          'psi_relation_return_eta:' + kind,
                          {'covariate_model': psi_e, 'expected': want_e,
                           'case': feats}, feats)
    except Exception as e:      # noqa
        ctx.violation_exc('evaluation_raises', e,
                          {'case': feats, 'call': 'return_eta'}, feats)
    # what an evaluation returned stays what it was when the model is
    # evaluated again at other parameters / covariates (one list of results
    # per posterior draw is the usual way to summarise a fit)
    try:
        held = model.compute_individual_parameters(top, obs, cov)
        snap = np.array(held, dtype=float)
        top2 = np.array(top, dtype=float) * 1.05 + 0.01
        cov2 = np.array(cov, dtype=float)[::-1] * 0.7 + 0.1
        model.compute_individual_parameters(top2, obs, cov2)
        model.compute_log_likelihood(top2, obs, cov2)
        ctx.count('held_results_rechecked')
        if not np.array_equal(np.asarray(held, dtype=float), snap):
            ctx.violation('returned_result_not_rewritten_by_later_calls',
                          'held_individual_parameters:' + kind,
                          {'returned': snap,
                           'after_next_evaluation': np.asarray(held),
                           'case': feats}, feats)
    except Exception as e:      # noqa
        ctx.violation_exc('evaluation_raises', e,
                          {'case': feats, 'call': 'second evaluation'}, feats)
    if zero and kind in 'GLT':
        # coincides with the underlying model at vartheta_0
        v0 = base.compute_log_likelihood(np.array(top[:nb]), obs)
        if not ctx.close(val, v0, rtol=1e-12, scale=sc):
            ctx.violation('zero_effect_is_underlying_model',
                          'zero_effect:' + kind,
                          {'covariate_model': val, 'underlying': v0,
                           'zero': zero}, feats)

    # ---- sensitivities: separate and reduced forms, +- upstream
    upstream = bool(rng.integers(2))
    c = rng.normal(size=(n_ids, n_dim)) if upstream else \
        np.zeros((n_ids, n_dim))

    def F(z):
        o = z[:n_ids * n_dim].reshape(n_ids, n_dim) if kind in 'GLT' else obs
        t = z[n_ids * n_dim:] if kind in 'GLT' else z
        t3 = leaf.vartheta(t, cov, n_ids)
        lp = leaf.logp(t3, o) if kind in 'GLT' else 0.0
        if kind == 'P':
            ps = t3[:, 0, :]
        elif kind == 'H':
            ps = np.array([t3[i, i, :] for i in range(n_ids)])
        else:
            ps = leaf.psi(t3, o, n_ids)
        return lp + np.sum(c * ps)
    z0 = np.concatenate([obs.ravel(), top]) if kind in 'GLT' \
        else np.array(top)
    g_ref = D.cstep_grad(F, z0)
    try:
        s_r, g_r = model.compute_sensitivities(
            top, obs, cov, dlogp_dpsi=c if upstream else None, reduce=True)
        s_s, dpsi, dth = model.compute_sensitivities(
            top, obs, cov, dlogp_dpsi=c if upstream else None)
    except Exception as e:      # noqa
        ctx.violation_exc('evaluation_raises', e,
                          {'case': feats, 'call': 'sensitivities'}, feats)
        return
    ctx.count('gradient_compared')
    gs = 1.0 + float(np.max(np.abs(g_ref)))
    g_r = np.asarray(g_r, dtype=float)
    if g_r.shape != g_ref.shape:
        ctx.violation('gradient_length', 'reduced_length:' + kind,
                      {'shape': g_r.shape, 'expected': g_ref.shape,
                       'case': feats}, feats)
    elif not ctx.close(g_r, g_ref, rtol=1e-8, scale=gs):
        bad = int(np.argmax(np.abs(g_r - g_ref)))
        n_b = n_ids * n_dim if kind in 'GLT' else 0
        block = 'bottom' if bad < n_b else (
            'theta0' if bad < n_b + nb else 'beta')
        ctx.violation('gradient_vs_complex_step',
                      'gradient_mismatch:%s:%s' % (kind, block),
                      {'chi': g_r, 'reference': g_ref, 'worst': bad,
                       'selection': given, 'case': feats}, feats)
    for s in (s_r, s_s):
        if not ctx.close(s, val, rtol=1e-10, scale=sc):
            ctx.violation('s1_score_equals_value', 's1_score:' + kind,
                          {'s1': s, 'value': val}, feats)
    if kind in 'GLT':
        dth = np.asarray(dth, dtype=float)
        if dth.shape != (n_expected,) or not ctx.close(
                dth, g_ref[n_ids * n_dim:], rtol=1e-8, scale=gs):
            ctx.violation('gradient_vs_complex_step',
                          'separate_form_mismatch:' + kind,
                          {'chi': dth, 'reference': g_ref[n_ids * n_dim:],
                           'case': feats}, feats)

    if kind in 'PH':
        # separate form of models without bottom-level parameters: the parts
        # (sensitivities w.r.t. the individual parameters, folded back
        # through psi_i = vartheta_i, plus those w.r.t. the population
        # parameters) add up to the gradient - nothing is counted twice
        try:
            dpsi_ = np.asarray(dpsi, dtype=float).reshape(n_ids, n_dim)
            dth_ = np.asarray(dth, dtype=float).ravel()

            def fold(z):
                t3 = leaf.vartheta(z, cov, n_ids)
                ps = t3[:, 0, :] if kind == 'P' else np.array(
                    [t3[i, i, :] for i in range(n_ids)])
                return np.sum(dpsi_ * ps)
            total = dth_ + D.cstep_grad(fold, np.array(top))
            ctx.count('separate_form_parts_added')
            if dth_.shape != g_ref.shape or not ctx.close(
                    total, g_ref, rtol=1e-8, scale=gs):
                ctx.violation('gradient_forms_agree',
                              'separate_parts_do_not_add_up:' + kind,
                              {'dtheta': dth_, 'dpsi': dpsi_,
                               'parts_added': total, 'reduced_form': g_ref,
                               'upstream': upstream, 'case': feats}, feats)
        except Exception as e:      # noqa
            ctx.violation_exc('evaluation_raises', e,
                              {'case': feats, 'call': 'separate form'},
                              feats)

    # ---- beta names by perturbation (tap on the underlying model)
    order = rng.permutation(len(sel) * n_cov)[:12]
    for k in order:
        s_i, cc = divmod(int(k), n_cov)
        t1 = np.array(top)
        t1[nb + k] += 0.01
        _TAP['args'][:] = []
        _TAP['on'] = True
        try:
            model.compute_log_likelihood(t1, obs, cov)
        finally:
            _TAP['on'] = False
        seen1 = _TAP['args'][-1]
        ctx.count('beta_names_checked')
        if zero == 'covariates':
            if not np.array_equal(seen1, seen):
                ctx.violation('beta_controls_named_entry',
                              'beta_effect_with_zero_covariates', {}, feats)
            continue
        delta = seen1 - seen
        moved = sorted(set((int(a[1]), int(a[2]))
                           for a in np.argwhere(delta != 0)))
        want_name = base_names[sel[s_i][0] * n_dim + sel[s_i][1]] + ' ' + \
            cov_names[cc]
        problems = []
        if moved != [tuple(sel[s_i])]:
            problems.append('moved %s, selected pair %s' % (
                moved, sel[s_i]))
        else:
            p_, d_ = sel[s_i]
            if not np.allclose(delta[:, p_, d_], 0.01 * cov[:, cc],
                               rtol=1e-6, atol=1e-12):
                problems.append('shift is not beta * covariate %d' % cc)
        if names[nb + k] != want_name:
            problems.append('name %r, expected %r' % (
                names[nb + k], want_name))
        if problems:
            ctx.violation('beta_controls_named_entry',
                          'beta_name_or_target:' + kind,
                          {'beta_index': int(k), 'problems': problems,
                           'selection_as_given': given, 'names': names,
                           'case': feats}, feats)
            break


def random_case(ctx, rng, idx):
    kind, centered = KINDS[idx % len(KINDS)]
    n_dim = int(rng.choice([1, 1, 2, 2, 3, 4, 6, 9, 12]))
    n_cov = int(rng.integers(1, 4))
    n_ids = int(rng.integers(1, 7))
    if kind == 'H' and n_dim > 4:
        n_dim = 4
    sel_mode = ['default', 'subset', 'duplicates'][idx // len(KINDS) % 3]
    zero = [None, None, None, 'beta', 'covariates'][idx // 21 % 5]
    run_case(ctx, rng, kind, centered, n_dim, n_cov, n_ids, sel_mode, zero)


def _all_selections():
    out = []
    for kind, centered in KINDS[:5]:
        for n_dim in (1, 2):
            full = [(p, d) for p in range(2) for d in range(n_dim)]
            for m in range(1, 2 ** len(full)):
                sel = [full[i] for i in range(len(full)) if m >> i & 1]
                out.append((kind, centered, n_dim, sel))
    return out


_SELS = _all_selections()


def exhaustive_case(ctx, rng, idx):
    kind, centered, n_dim, sel = _SELS[idx % len(_SELS)]
    given = [sel[i] for i in rng.permutation(len(sel))]
    run_case(ctx, rng, kind, centered, n_dim, int(rng.integers(1, 3)),
             int(rng.integers(1, 4)), 'enumerated', None, given=given)


def out_of_range_case(ctx, rng, idx):
    kind, centered = KINDS[idx % 5]
    n_dim = int(rng.integers(1, 4))
    _, base = _underlying(kind, n_dim, centered, 2)
    model = chi.CovariatePopulationModel(base, chi.LinearCovariateModel(1))
    bad = [[0, 0], [[2, 0], [0, n_dim], [-1, 0]][idx // 5 % 3]]
    ctx.case(('out_of_range', kind, tuple(bad[1])), True,
             sample={'selection': bad})
    ctx.count('out_of_range_cases')
    n0 = model.n_parameters()
    try:
        model.set_population_parameters(bad)
    except (IndexError, ValueError):
        ctx.reject('out-of-range selection refused')
        if model.n_parameters() != n0 or \
                len(model.get_parameter_names()) != n0:
            ctx.violation('parameter_count',
                          'refused_selection_changed_model', {}, {})
        return
    ctx.violation('out_of_range_selection_refused',
                  'out_of_range_accepted', {'selection': bad}, {})


def sample_case(ctx, rng, idx):
    """samples of the covariate model follow the underlying model at
    vartheta_i, individual by individual (PIT + KS)"""
    from scipy import stats
    from harness.oracle import stats as S
    kind, centered = KINDS[idx % 5]
    n_dim = int(rng.integers(1, 4))
    n_cov = int(rng.integers(1, 3))
    n = 6000 if ctx.tier == 'quick' else 60000
    leaf0, base = _underlying(kind, n_dim, centered, 1)
    given, sel = _selection(rng, 2, n_dim, ['default', 'subset'][idx // 5 % 2])
    model = chi.CovariatePopulationModel(
        base, chi.LinearCovariateModel(n_cov=n_cov))
    if given is not None:
        model.set_population_parameters([list(g) for g in given])
    leaf = GP.make_leaf(kind, n_dim, centered, n_cov, sel, 1)
    top = GP.leaf_top(rng, leaf, 1, strong_cov=True)
    nb = leaf.n_base(1)
    one_row = bool(rng.integers(2))
    cov = rng.uniform(-1, 1, size=(1 if one_row else n, n_cov))
    feats = {'class': GP.leaf_code(leaf), 'kind': kind, 'n_dim': n_dim,
             'n_cov': n_cov, 'selection': given, 'one_covariate_row': one_row}
    ctx.case(('sample', GP.leaf_code(leaf), one_row), True, sample=feats)
    seed = int(rng.integers(1, 2 ** 31))
    try:
        smp = np.asarray(model.sample(
            top, cov[0] if one_row else cov, n_samples=n, seed=seed),
            dtype=float)
    except Exception as e:      # noqa
        ctx.violation_exc('sample_raises', e, {'case': feats}, feats)
        return
    if smp.shape != (n, n_dim):
        ctx.violation('sample_shape', 'sample_shape',
                      {'shape': smp.shape}, feats)
        return
    covn = np.broadcast_to(cov, (n, n_cov))
    th = np.real(leaf.vartheta(top, covn, n))
    ctx.count('sample_ks_tests', n_dim)
    for d in range(n_dim):
        mu, sd = th[:, 0, d], th[:, 1, d]
        col = smp[:, d]
        if kind in 'GL' and not centered:
            u = stats.norm.cdf(col)
        elif kind == 'G':
            u = stats.norm.cdf(col, mu, sd)
        elif kind == 'L':
            u = stats.norm.cdf(np.log(np.maximum(col, 1e-300)), mu, sd)
        else:
            a = (0 - mu) / sd
            u = stats.truncnorm.cdf(col, a, np.inf, loc=mu, scale=sd)
        dks = S.ks_uniform(u)
        crit = S.ks_crit(n)
        ctx.maximum('sample_ks_D_over_crit', dks / crit)
        if dks > crit:
            ctx.violation('sample_follows_underlying_at_vartheta_i',
                          'sample_ks_reject:' + kind,
                          {'D': dks, 'critical': crit, 'dim': d,
                           'case': feats}, feats)


def sample_rows_case(ctx, rng, idx):
    """few samples with one covariate row each (also as many samples as
    covariates: a square matrix): sample i is drawn for covariate row i.
    Underlying model pooled or centred with a tiny scale, so every sample
    is determined by its own row"""
    kind = 'PGLT'[idx % 4]
    n_cov = int(rng.integers(1, 5))
    n = n_cov if rng.random() < 0.5 else int(rng.integers(1, 6))
    under = {'P': chi.PooledModel, 'G': chi.GaussianModel,
             'L': chi.LogNormalModel, 'T': chi.TruncatedGaussianModel}[kind]()
    model = chi.CovariatePopulationModel(
        under, chi.LinearCovariateModel(n_cov=n_cov))
    if kind != 'P':
        model.set_population_parameters([[0, 0]])
    if rng.random() < 0.3:
        model = chi.ReducedPopulationModel(model)
    a0 = float(rng.uniform(1, 2))
    beta = rng.uniform(0.3, 1.0, size=n_cov)
    top = {'P': [a0], 'G': [a0, 1e-6], 'T': [a0, 1e-6],
           'L': [float(np.log(a0)), 1e-7]}[kind] + list(beta)
    cov = rng.uniform(0, 3, size=(n, n_cov))
    feats = {'family': 'sample_rows', 'kind': kind, 'n_cov': n_cov,
             'n_samples': n, 'square': n == n_cov}
    ctx.case(('sample_rows', kind, n_cov, n), True,
             sample=dict(feats, covariates=cov))
    try:
        smp = np.asarray(model.sample(
            top, n_samples=n, seed=int(rng.integers(1000)),
            covariates=cov if rng.random() < 0.5 else cov.tolist()),
            dtype=float)
    except Exception as e:      # noqa
        ctx.violation_exc('sample_raises', e, {'case': feats}, feats)
        return
    ctx.count('sample_rows_checked', n)
    lin = cov @ beta
    want = np.exp(np.log(a0) + lin) if kind == 'L' else a0 + lin
    if smp.shape != (n, 1) or np.max(np.abs(smp[:, 0] - want) / (
            1 + np.abs(want))) > 1e-4:
        ctx.violation('sample_follows_underlying_at_vartheta_i',
                      'sample_row_mismatch:' + kind,
                      {'samples': smp, 'expected': want,
                       'with_the_transposed_matrix': (
                           a0 + cov.T @ beta).tolist()
                       if n == n_cov else None, 'case': feats}, feats)


def composite_names_case(ctx, rng, idx):
    """covariate columns of a composite (optionally behind a reduced
    wrapper) are named through the composite: the names read back, and a
    beta whose name ends with a covariate name multiplies exactly that
    column (decided by moving one column and one beta at a time)"""
    n_ids = int(rng.integers(1, 4))
    k = int(rng.integers(2, 4))
    leaves = []
    for _ in range(k):
        kind = 'GL'[int(rng.integers(2))]
        n_dim = int(rng.integers(1, 3))
        n_cov = int(rng.integers(0, 3)) if len(leaves) else \
            int(rng.integers(1, 3))
        sel = None
        if n_cov and rng.random() < 0.5:
            sel = [[0, int(rng.integers(n_dim))]]
        leaves.append(GP.make_leaf(kind, n_dim, True, n_cov, sel, n_ids))
    rng.shuffle(leaves)
    reduced = rng.random() < 0.4
    codes = [GP.leaf_code(l) for l in leaves]
    feats = {'mode': 'composite_names', 'leaves': codes, 'n_ids': n_ids,
             'reduced': reduced}
    ctx.case(('composite_names', '+'.join(codes), reduced), True,
             sample=feats)
    try:
        model = GP.build_chi(leaves, n_ids, force_composed=True)
        if reduced:
            model = chi.ReducedPopulationModel(model)
        n_cov = model.n_covariates()
        pool = ['age', 'weight', 'sex', 'dose group', 'height', 'bmi']
        given = [pool[i] for i in rng.permutation(len(pool))[:n_cov]]
        model.set_covariate_names(given)
        back = model.get_covariate_names()
        names = model.get_parameter_names()
    except Exception as e:      # noqa
        ctx.violation_exc('evaluation_raises', e,
                          {'case': feats, 'call': 'set_covariate_names'},
                          feats)
        return
    ctx.count('composite_covariate_names_set')
    if list(back) != given:
        ctx.violation('covariate_names_identify_columns',
                      'composite_covariate_names_not_kept',
                      {'given': given, 'read back': back, 'case': feats},
                      feats)
        return
    h = Hierarchy(leaves, n_ids)
    _, x, cov = GP.hierarchy_vector(rng, leaves, n_ids)
    top = np.array(x[h.n_bottom:], dtype=float)
    obs = rng.uniform(0.4, 0.9, size=(n_ids, h.n_dim))
    betas = [i for i, nm in enumerate(names)
             if any(nm.endswith(' ' + c) for c in given)]
    want_betas = sum(len(l.cov['sel']) * l.cov['n_cov']
                     for l in leaves if l.cov)
    if len(betas) != want_betas:
        ctx.violation('covariate_names_identify_columns',
                      'beta_names_without_covariate_name',
                      {'names': names, 'covariate names': given,
                       'expected betas': want_betas}, feats)
        return
    for i in betas[:8]:
        t = np.array(top)
        t[betas] = 0.0
        t[i] = 0.3
        named = [j for j, c in enumerate(given)
                 if names[i].endswith(' ' + c)]
        try:
            v0 = model.compute_log_likelihood(t, obs, covariates=cov)
            moved = []
            for j in range(n_cov):
                c1 = np.array(cov)
                c1[:, j] += 0.5
                v1 = model.compute_log_likelihood(t, obs, covariates=c1)
                # (a column that acts shifts a parameter by 0.15; sums of
                # identical numbers may differ in the last place from call
                # to call with the alignment of numpy's buffers)
                if abs(v1 - v0) > 1e-9 * (1 + abs(v0)):
                    moved.append(j)
        except Exception as e:      # noqa
            ctx.violation_exc('evaluation_raises', e, {'case': feats},
                              feats)
            return
        ctx.count('beta_names_checked')
        if moved != named:
            ctx.violation('covariate_names_identify_columns',
                          'beta_name_vs_column',
                          {'beta': names[i], 'columns named': named,
                           'columns that act': moved, 'names': names,
                           'covariate names': given, 'case': feats}, feats)
            return


def reduced_reselect_case(ctx, rng, idx):
    """a covariate model inside a ReducedPopulationModel: parameters are
    fixed by NAME; when the selection of transformed parameters is changed
    afterwards (through get_population_model(), the only place where it
    can be changed), a fixed name that still exists stays fixed at its
    value, a name that no longer exists is dropped, and nothing else gets
    fixed - whatever the sizes of the old and the new selection"""
    kind = 'GL'[int(rng.integers(2))]
    n_dim = int(rng.integers(1, 3))
    n_cov = int(rng.integers(1, 3))
    n_ids = int(rng.integers(1, 4))
    full_sel = [[p_, d] for p_ in range(2) for d in range(n_dim)]

    def pick_sel():
        k = int(rng.integers(1, len(full_sel) + 1))
        return sorted(full_sel[i] for i in rng.permutation(
            len(full_sel))[:k])
    sel1, sel2 = pick_sel(), pick_sel()
    if rng.random() < 0.6:
        # same size, other pairs
        cand = [pick_sel() for _ in range(6)]
        cand = [c for c in cand if len(c) == len(sel1) and c != sel1]
        if cand:
            sel2 = cand[0]
    centered = bool(rng.random() < 0.6)
    base = (chi.GaussianModel if kind == 'G' else chi.LogNormalModel)(
        n_dim=n_dim, centered=centered)
    cpm = chi.CovariatePopulationModel(
        base, chi.LinearCovariateModel(n_cov=n_cov))
    cpm.set_population_parameters(sel1)
    red = chi.ReducedPopulationModel(cpm)
    names1 = red.get_parameter_names()
    k_fix = int(rng.integers(1, len(names1)))
    fixed = dict((names1[i], float(rng.uniform(0.05, 0.3)))
                 for i in rng.permutation(len(names1))[:k_fix])
    feats = {'mode': 'reduced_reselect', 'kind': kind, 'n_dim': n_dim,
             'n_cov': n_cov, 'same_size': len(sel1) == len(sel2),
             'selection_before': sel1, 'selection_after': sel2,
             'fixed': sorted(fixed)}
    ctx.case(('reduced_reselect', kind, n_dim, n_cov, len(sel1), len(sel2)),
             True, sample=feats)
    try:
        red.fix_parameters(fixed)
        # (an evaluation in between fills the wrapper's value buffer)
        red.compute_log_likelihood(
            np.full(red.n_parameters(), 0.4), np.full((n_ids, n_dim), 0.7),
            covariates=np.full((n_ids, n_cov), 0.1))
        new_dims = None
        if rng.random() < 0.5:
            # the dimensions are named through the wrapper after the
            # fixing: the fixed parameters are known by their new names
            new_dims = ['organ %d' % d for d in range(n_dim)]
            red.set_dim_names(new_dims)
            feats['renamed_dimensions_after_fixing'] = True

            def ren(n_):
                for d in range(n_dim):
                    n_ = n_.replace('Dim. %d' % (d + 1), new_dims[d])
                return n_
            fixed = dict((ren(k_), v_) for k_, v_ in fixed.items())
        red.get_population_model().set_population_parameters(sel2)
        twin = chi.CovariatePopulationModel(
            (chi.GaussianModel if kind == 'G' else chi.LogNormalModel)(
                n_dim=n_dim, centered=centered),
            chi.LinearCovariateModel(n_cov=n_cov))
        twin.set_population_parameters(sel2)
        if new_dims is not None:
            twin.set_dim_names(new_dims)
        full_names = twin.get_parameter_names()
        want_free = [n_ for n_ in full_names if n_ not in fixed]
        if rng.random() < 0.5 and want_free:
            # the FIRST call after the re-selection is the transform of the
            # individual parameters (no accessor has been asked before)
            v_ = dict((n_, float(rng.uniform(0.2, 0.6))) for n_ in want_free)
            xf_ = np.array([fixed.get(n_, v_.get(n_)) for n_ in full_names])
            eta_ = rng.uniform(0.2, 0.8, size=(n_ids, n_dim))
            cv_ = rng.uniform(-1, 1, size=(n_ids, n_cov))
            p_red = np.asarray(red.compute_individual_parameters(
                np.array([v_[n_] for n_ in want_free]), eta_, cv_),
                dtype=float)
            p_twin = np.asarray(twin.compute_individual_parameters(
                xf_, eta_, cv_), dtype=float)
            ctx.count('first_call_transforms')
            if p_red.shape != p_twin.shape or not ctx.close(
                    p_red, p_twin, rtol=1e-12):
                ctx.violation('fixed_by_name_across_reselection',
                              'first_transform_after_reselection',
                              {'reduced model': p_red,
                               'covariate model at the named values': p_twin,
                               'case': feats}, feats)
                return
        got_free = red.get_parameter_names()
    except Exception as e:      # noqa
        ctx.violation_exc('evaluation_raises', e, {'case': feats}, feats)
        return
    ctx.count('reduced_reselections')
    if got_free != want_free or red.n_parameters() != len(want_free):
        ctx.violation('fixed_by_name_across_reselection',
                      'free_names_after_reselection',
                      {'free names': got_free, 'expected': want_free,
                       'n_parameters': red.n_parameters()}, feats)
        return
    vals = dict((n_, float(rng.uniform(0.2, 0.6))) for n_ in want_free)
    x_full = np.array([fixed.get(n_, vals.get(n_)) for n_ in full_names])
    x_free = np.array([vals[n_] for n_ in want_free])
    obs = rng.uniform(0.4, 0.9, size=(n_ids, n_dim))
    cov = rng.uniform(-1, 1, size=(n_ids, n_cov))
    try:
        got = red.compute_log_likelihood(x_free, obs, covariates=cov)
        want = twin.compute_log_likelihood(x_full, obs, cov)
    except Exception as e:      # noqa
        ctx.violation_exc('evaluation_raises', e, {'case': feats}, feats)
        return
    if not ctx.close(got, want, rtol=1e-12, scale=abs(want) + 1):
        ctx.violation('fixed_by_name_across_reselection',
                      'value_after_reselection',
                      {'reduced model': got,
                       'covariate model at the named values': want,
                       'free names': got_free}, feats)


def kept_dim_names_case(ctx, rng, idx):
    """dimension names given to the underlying model are the ones the
    covariate model publishes (the names identify the dimension a
    coefficient acts on)"""
    kind = 'GLTP'[idx % 4]
    n_dim = int(rng.integers(1, 4))
    dims = ['clearance', 'volume', 'ka', 'tlag'][:n_dim]
    cls = {'G': chi.GaussianModel, 'L': chi.LogNormalModel,
           'T': chi.TruncatedGaussianModel, 'P': chi.PooledModel}[kind]
    feats = {'mode': 'kept_dim_names', 'kind': kind, 'n_dim': n_dim}
    ctx.case(('kept_dim_names', kind, n_dim), True, sample=feats)
    try:
        base = cls(n_dim=n_dim, dim_names=list(dims))
        cpm = chi.CovariatePopulationModel(
            base, chi.LinearCovariateModel(n_cov=1))
        got = cpm.get_dim_names()
        names = cpm.get_parameter_names()
    except Exception as e:      # noqa
        ctx.violation_exc('evaluation_raises', e, {'case': feats}, feats)
        return
    ctx.count('dim_name_checks')
    if list(got) != dims or not all(
            any(d in n_ for d in dims) for n_ in names):
        ctx.violation('names_identify_parameter_dimension_covariate',
                      'dimension_names_of_wrapped_model_discarded',
                      {'given': dims, 'published': got, 'names': names},
                      feats)


FAMILIES = [
    Family('sample_rows', sample_rows_case, quick=160, thorough=1600),
    Family('random', random_case, quick=2100, thorough=42000),
    Family('exhaustive', exhaustive_case, quick=len(_SELS),
           thorough=len(_SELS) * 4),
    Family('out_of_range', out_of_range_case, quick=60, thorough=300),
    Family('sample', sample_case, quick=80, thorough=600),
    Family('composite_names', composite_names_case, quick=150,
           thorough=1500),
    Family('reduced_reselect', reduced_reselect_case, quick=200,
           thorough=2000),
    Family('kept_dim_names', kept_dim_names_case, quick=24, thorough=120),
]
