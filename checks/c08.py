"""
C08 - fixing parameters is exact substitution, reversible and
order-independent.  Oracle: an unfixed twin object built from the same inputs,
evaluated at the full vector with the net name->value map substituted.
"""
import itertools

import numpy as np
import pandas as pd
import pints

from harness.bootstrap import load_chi
from harness.core import Family
from harness import gen_loglik as GL
from harness import gen_pop as GP
from harness import toys
from harness.oracle import densities as D
from harness.oracle.hierarchy import Hierarchy

chi = load_chi()

PROP = 'C08'
TITLE = 'fixing parameters: substitution, reversible, order-independent'
RULE = (
    'object classes: ReducedErrorModel, ReducedMechanisticModel (toy and '
    'dosed SBML with sensitivities), ReducedPopulationModel (leaf / composed '
    '/ covariate), LogLikelihood, PredictiveModel, PopulationPredictiveModel, '
    'ProblemModellingController; histories of 1-6 calls from {fix subset, '
    're-fix to other values, release subset, mixed dict, unknown name, empty '
    'dict} with evaluations between the calls; exhaustive family: all '
    'histories of length <=3 over {fix a, fix b, release a, release b, fix '
    'both} per class; signature = (class, history op-sequence, final fixed '
    'mask); non-trivial = >=2 calls or a release / re-fix')
ASSUMPTIONS = [
    "ReducedErrorModel refuses names of free parameters over 50 characters (pinned by the repository's tests): multi-output objects whose prefixed free error-parameter names exceed the limit are counted as rejected, not as violations",
    'the twin object is built from identical inputs and never has '
    'fix_parameters called on it',
    'seeded sampling of twin and reduced object uses the same integer seed',
    'values 0 / integers are used as fixed values only for location parameters (scale parameters and their covariate coefficients would leave the support)',
]
ANCHORS = [
    'chi._error_models.ReducedErrorModel.fix_parameters',
    'chi._mechanistic_models.ReducedMechanisticModel.fix_parameters',
    'chi._population_models.ReducedPopulationModel.fix_parameters',
    'chi._log_pdfs.LogLikelihood.fix_parameters',
    'chi._predictive_models.PredictiveModel.fix_parameters',
    'chi._predictive_models.PopulationPredictiveModel.fix_parameters',
    'chi._problems.ProblemModellingController.fix_parameters',
]
REQUIRED = {'twin_comparisons': 500, 'histories': 200,
            'release_steps': 50, 'refix_steps': 50,
            'results_rechecked_after_later_call': 100}
TIMES = np.array([0.3, 1.0, 1.7, 2.4])


# --------------------------------------------------------------- adapters
class Adapter(object):
    cls = None

    def zero_names(self):
        """parameters for which 0 is an ordinary value (fixing a parameter
        at 0 / at a python int is still fixing it)"""
        toy = [n for n in self.full_names if n in ('k', 'b')]
        # (location parameters and the covariate coefficients acting on
        # them; coefficients on scales could leave the support)
        pop = [n for n in self.full_names
               if n.startswith(('Mean ', 'Log mean '))]
        return toy + pop

    def names(self, obj):
        return list(obj.get_parameter_names())

    def n_parameters(self, obj):
        return obj.n_parameters()

    def n_fixed(self, obj):
        return obj.n_fixed_parameters() if hasattr(
            obj, 'n_fixed_parameters') else None

    def fix(self, obj, d):
        obj.fix_parameters(d)


class ErrorModelAdapter(Adapter):
    cls = 'ReducedErrorModel'
    evaluate_all_fixed = True

    def __init__(self, rng):
        self.cname = sorted(D.ERROR_MODELS)[int(rng.integers(4))]
        self.n = int(rng.integers(1, 6))
        self.ybar = rng.uniform(0.5, 4, self.n)
        self.y = self.ybar * np.exp(0.2 * rng.normal(size=self.n))
        self.sens = rng.normal(size=(self.n, int(rng.integers(0, 4))))
        self.seed = int(rng.integers(1, 1000))

    def make(self):
        m = getattr(chi, self.cname)()
        self.full_names = m.get_parameter_names()
        return chi.ReducedErrorModel(getattr(chi, self.cname)()), m

    def point(self, rng):
        return rng.uniform(0.1, 0.6, len(self.full_names))

    def evals(self, obj, x, mask):
        s, g = obj.compute_sensitivities(x, self.ybar, self.sens, self.y)
        return {'value': obj.compute_log_likelihood(x, self.ybar, self.y),
                'pointwise': obj.compute_pointwise_ll(x, self.ybar, self.y),
                's1_score': s, 'gradient': g,
                'sample': obj.sample(x, self.ybar, n_samples=3,
                                     seed=self.seed)}

    def evals_twin(self, twin, xf, mask):
        out = self.evals(twin, xf, None)
        w = self.sens.shape[1]
        keep = np.concatenate([np.ones(w, dtype=bool), mask])
        out['gradient'] = np.asarray(out['gradient'])[keep]
        return out


class ToyMechAdapter(Adapter):
    cls = 'ReducedMechanisticModel(toy)'
    evaluate_all_fixed = True

    def __init__(self, rng):
        self.n_out = int(rng.integers(1, 3))
        self._init_mode(rng)

    def _init_mode(self, rng):
        # 'toggle': every evaluation switches sensitivities off and on again
        # 'sticky': sensitivities are enabled once (before the history) and
        #           then left alone, so that fix_parameters itself has to
        #           keep the selection in step with the free parameters
        self.mode = ['toggle', 'sticky'][int(rng.integers(2))]
        self.cls = self.cls + '/' + self.mode

    def _after_make(self, obj, twin):
        if self.mode == 'sticky':
            obj.enable_sensitivities(True)
            twin.enable_sensitivities(True)
        return obj, twin

    def names(self, obj):
        return list(obj.parameters())

    def make(self):
        m = toys.ToyMulti(self.n_out)
        self.full_names = m.parameters()
        return self._after_make(
            chi.ReducedMechanisticModel(toys.ToyMulti(self.n_out)), m)

    def point(self, rng):
        return toys.toy_multi_params(rng, self.n_out)

    def evals(self, obj, x, mask):
        if self.mode == 'sticky':
            out = obj.simulate(x, TIMES)
            if not isinstance(out, tuple):
                return {'has_sensitivities': False}
            return {'has_sensitivities': True,
                    'simulate_with_sens': out[0], 'sens': out[1]}
        obj.enable_sensitivities(False)
        y = obj.simulate(x, TIMES)
        obj.enable_sensitivities(True)
        y2, s = obj.simulate(x, TIMES)
        return {'simulate': y, 'simulate_with_sens': y2, 'sens': s}

    def evals_twin(self, twin, xf, mask):
        if self.mode == 'sticky':
            y2, s = twin.simulate(xf, TIMES)
            return {'has_sensitivities': True, 'simulate_with_sens': y2,
                    'sens': s[:, :, mask]}
        twin.enable_sensitivities(False)
        y = twin.simulate(xf, TIMES)
        twin.enable_sensitivities(True)
        y2, s = twin.simulate(xf, TIMES)
        return {'simulate': y, 'simulate_with_sens': y2,
                'sens': s[:, :, mask]}


class SbmlMechAdapter(ToyMechAdapter):
    cls = 'ReducedMechanisticModel(sbml)'
    rtol = 1e-7

    def zero_names(self):
        return []

    def __init__(self, rng):
        self._init_mode(rng)
        self.direct = bool(rng.integers(2))
        self.reg = dict(dose=float(rng.uniform(1, 3)),
                        start=float(rng.uniform(0, 1)),
                        duration=float(rng.uniform(0.1, 0.4)),
                        period=1.0, num=2)

    def _model(self):
        from chi.library import ModelLibrary
        m = ModelLibrary().one_compartment_pk_model()
        m.set_administration('central', direct=self.direct)
        m.set_dosing_regimen(**self.reg)
        return m

    def make(self):
        m = self._model()
        self.full_names = m.parameters()
        return self._after_make(chi.ReducedMechanisticModel(self._model()),
                                m)

    def point(self, rng):
        return rng.uniform(0.3, 2.0, len(self.full_names))


class PopAdapter(Adapter):
    cls = 'ReducedPopulationModel'

    def __init__(self, rng):
        self.n_ids = int(rng.integers(1, 5))
        while True:
            self.leaves = GP.random_composition(
                rng, self.n_ids, max_parts=3, max_dim=2, p_cov=0.3,
                cov_kinds='GLT')
            m = GP.build_chi(self.leaves, self.n_ids)
            nm = m.get_parameter_names()
            if len(set(nm)) == len(nm):
                break
        self.h = Hierarchy(self.leaves, self.n_ids)
        _, x, self.cov = GP.hierarchy_vector(rng, self.leaves, self.n_ids)
        self.x_top = x[self.h.n_bottom:]
        _, psi = self.h.split(x, self.cov)
        # observations: eta for regular dims, psi for special ones
        eta = np.zeros((self.n_ids, self.h.n_dim))
        zb = x[:self.h.n_bottom].reshape(self.n_ids, self.h.n_hdim) \
            if self.h.n_hdim else None
        ib = idim = 0
        for l in self.leaves:
            if l.n_hdim():
                eta[:, idim:idim + l.n_dim] = zb[:, ib:ib + l.n_dim]
                ib += l.n_dim
            else:
                eta[:, idim:idim + l.n_dim] = np.real(
                    psi[:, idim:idim + l.n_dim])
            idim += l.n_dim
        self.obs = eta
        self.c = rng.normal(size=(self.n_ids, self.h.n_dim))
        self.seed = int(rng.integers(1, 1000))
        self.has_point_mass = any(l.kind in 'PH' for l in self.leaves)
        self.cls = 'ReducedPopulationModel(%s)' % (
            'composed' if len(self.leaves) > 1 else
            GP.leaf_code(self.leaves[0]).rstrip('0123456789'))

    def make(self):
        m = GP.build_chi(self.leaves, self.n_ids)
        self.full_names = m.get_parameter_names()
        return chi.ReducedPopulationModel(
            GP.build_chi(self.leaves, self.n_ids)), m

    def point(self, rng):
        # point-mass parts need observations == parameters: keep the vector
        if self.has_point_mass:
            return self.x_top.copy()
        return self.x_top * np.exp(0.05 * rng.normal(size=len(self.x_top)))

    def _kw(self):
        return {'covariates': self.cov} if self.h.n_cov else {}

    def evals(self, obj, x, mask):
        kw = self._kw()
        s, dpsi, dth = obj.compute_sensitivities(
            x, self.obs, dlogp_dpsi=self.c, **kw)
        s2, g = obj.compute_sensitivities(
            x, self.obs, dlogp_dpsi=self.c, reduce=True, **kw)
        out = {'value': obj.compute_log_likelihood(x, self.obs, **kw),
               'psi': np.array(obj.compute_individual_parameters(
                   x, self.obs, **kw)),
               's1_score': s, 'dpsi': dpsi, 'dtheta': dth,
               's1_score_reduced': s2, 'reduced_gradient': g,
               'n_hierarchical_parameters':
                   obj.n_hierarchical_parameters(self.n_ids)}
        try:
            kw2 = {'covariates': self.cov[:1]} if self.h.n_cov else {}
            out['sample'] = np.array(obj.sample(
                x, n_samples=4, seed=self.seed, **kw2))
        except Exception as e:      # noqa
            out['sample'] = 'raised ' + type(e).__name__
        return out

    def evals_twin(self, twin, xf, mask):
        out = self.evals(twin, xf, None)
        out['dtheta'] = np.asarray(out['dtheta'])[mask]
        n_b = self.n_ids * self.h.n_hdim
        g = np.asarray(out['reduced_gradient'])
        out['reduced_gradient'] = np.concatenate(
            [g[:n_b], g[n_b:][mask]])
        nb, nt = out['n_hierarchical_parameters']
        out['n_hierarchical_parameters'] = (nb, int(np.sum(mask)))
        return out


class LogLikelihoodAdapter(Adapter):
    cls = 'LogLikelihood'
    evaluate_all_fixed = True

    def __init__(self, rng):
        self.case = GL.LLCase(rng, allow_empty=False)
        # 's1_only': only evaluateS1 between the fix calls (the plain
        # evaluations switch the sensitivities of the owned model off and
        # would hide a stale sensitivity selection)
        self.mode = ['all', 's1_only'][int(rng.integers(2))]
        self.cls = 'LogLikelihood/' + self.mode

    def n_fixed(self, obj):
        return None

    def make(self):
        self.full_names = self.case.full_names()
        a, b = self.case.build(), self.case.build()
        if self.mode == 's1_only':
            x = self.case.point(np.random.default_rng(0))
            a.evaluateS1(x)
        return a, b

    def point(self, rng):
        return self.case.point(rng)

    def evals(self, obj, x, mask):
        s, g = obj.evaluateS1(x)
        if self.mode == 's1_only' and mask is not None:
            return {'s1_score': s, 'gradient': g}
        return {'value': obj(x), 'pointwise': obj.compute_pointwise_ll(x),
                's1_score': s, 'gradient': g,
                'value_after_s1': obj(x)}

    def evals_twin(self, twin, xf, mask):
        out = self.evals(twin, xf, None)
        out['gradient'] = np.asarray(out['gradient'])[mask]
        if self.mode == 's1_only':
            out = {k: out[k] for k in ('s1_score', 'gradient')}
        return out


class PredictiveAdapter(Adapter):
    cls = 'PredictiveModel'
    evaluate_all_fixed = True

    def __init__(self, rng):
        self.n_out = int(rng.integers(1, 3))
        self.ems = [sorted(D.ERROR_MODELS)[int(rng.integers(4))]
                    for _ in range(self.n_out)]
        self.seed = int(rng.integers(1, 1000))

    def n_fixed(self, obj):
        return None

    def _pm(self):
        return chi.PredictiveModel(
            toys.ToyMulti(self.n_out),
            [getattr(chi, e)() for e in self.ems])

    def make(self):
        a, b = self._pm(), self._pm()
        self.full_names = b.get_parameter_names()
        return a, b

    def point(self, rng):
        n_em = len(self.full_names) - self.n_out - 2
        return np.concatenate([toys.toy_multi_params(rng, self.n_out),
                               rng.uniform(0.1, 0.4, n_em)])

    def evals(self, obj, x, mask):
        df = obj.sample(x, TIMES[::-1], n_samples=3, seed=self.seed)
        return {'sample_array': obj.sample(
            x, TIMES, n_samples=3, seed=self.seed, return_df=False),
            'sample_table_values': df['Value'].to_numpy(dtype=float)}

    def evals_twin(self, twin, xf, mask):
        return self.evals(twin, xf, None)


class PopPredictiveAdapter(Adapter):
    cls = 'PopulationPredictiveModel'

    def __init__(self, rng):
        self.n_out = 1
        self.leaves = GP.random_composition(
            rng, 1, total_dim=4, kinds='LP', p_cov=0.0)
        self.seed = int(rng.integers(1, 1000))
        self.rng_top = np.concatenate(
            [GP.leaf_top(rng, l, 1) for l in self.leaves])

    def n_fixed(self, obj):
        return None

    def _pm(self):
        pm = chi.PredictiveModel(
            toys.ToyMulti(1), [chi.GaussianErrorModel()])
        pop = GP.build_chi(self.leaves, 1)
        pop.set_dim_names(pm.get_parameter_names())
        return chi.PopulationPredictiveModel(pm, pop)

    def make(self):
        a, b = self._pm(), self._pm()
        self.full_names = b.get_parameter_names()
        return a, b

    def point(self, rng):
        return self.rng_top * np.exp(0.05 * rng.normal(size=len(
            self.rng_top)))

    def evals(self, obj, x, mask):
        return {'sample_array': obj.sample(
            x, TIMES, n_samples=3, seed=self.seed, return_df=False)}

    def evals_twin(self, twin, xf, mask):
        return self.evals(twin, xf, None)


class ControllerAdapter(Adapter):
    cls = 'ProblemModellingController'

    def __init__(self, rng):
        self.pop = bool(rng.integers(2))
        self.n_ids = int(rng.integers(2, 4))
        rows = []
        for i in range(self.n_ids):
            t = np.sort(rng.choice(GL.POOL[1:], size=3, replace=False))
            for tt in t:
                rows.append({'ID': i + 1, 'Time': tt, 'Observable': 'Out 1',
                             'Value': float(rng.uniform(1, 4))})
        self.data = pd.DataFrame(rows)
        self.cls += '(population)' if self.pop else '(individual)'
        self.x_ind = np.concatenate(
            [toys.toy_multi_params(rng, 1), [0.3]])

    def n_fixed(self, obj):
        return None

    def n_parameters(self, obj):
        return obj.get_n_parameters()

    def _ctrl(self):
        c = chi.ProblemModellingController(
            toys.ToyMulti(1), chi.GaussianErrorModel())
        c.set_data(self.data.copy())
        if self.pop:
            c.set_population_model(chi.ComposedPopulationModel([
                chi.GaussianModel(), chi.PooledModel(),
                chi.LogNormalModel(n_dim=2)]))
        return c

    def make(self):
        a, b = self._ctrl(), self._ctrl()
        self.full_names = b.get_parameter_names()
        return a, b

    def point(self, rng):
        if not self.pop:
            return self.x_ind.copy()
        return np.array([2.0, 0.5, 0.3, -1.0, -1.2, 0.4, 0.3]) * np.exp(
            0.02 * rng.normal(size=7))

    def _posterior(self, ctrl, n):
        ctrl.set_log_prior(pints.ComposedLogPrior(*[
            pints.GaussianLogPrior(0.5, 3) for _ in range(n)]))
        return ctrl.get_log_posterior()

    def _bottom(self):
        return np.tile([2.0, 0.3, 0.2], self.n_ids)

    def evals(self, obj, x, mask):
        post = self._posterior(obj, len(x))
        ll = post.get_log_likelihood()
        if self.pop:
            x = np.concatenate([self._bottom(), x])
        s, g = ll.evaluateS1(x)
        return {'posterior_n_parameters': post.n_parameters(),
                'likelihood': ll(x), 's1_score': s, 'gradient': g,
                'posterior_names': post.get_parameter_names()}

    def evals_twin(self, twin, xf, mask):
        post = self._posterior(twin, len(xf))
        ll = post.get_log_likelihood()
        keep = mask
        x = xf
        if self.pop:
            x = np.concatenate([self._bottom(), xf])
            keep = np.concatenate(
                [np.ones(len(x) - len(xf), dtype=bool), mask])
        s, g = ll.evaluateS1(x)
        names = post.get_parameter_names()
        return {'posterior_n_parameters': int(np.sum(keep)),
                'likelihood': ll(x), 's1_score': s,
                'gradient': np.asarray(g)[keep],
                'posterior_names': [n for n, k in zip(names, keep) if k]}


class SbmlLogLikelihoodAdapter(Adapter):
    """LogLikelihood over the dosed library PK model: any subset of its
    parameters may be fixed - in particular ALL mechanistic ones (known
    kinetics, only the noise is inferred)"""
    cls = 'LogLikelihood(sbml)'
    rtol = 1e-6

    def __init__(self, rng):
        self.direct = bool(rng.integers(2))
        self.times = np.sort(rng.choice(GL.POOL[1:], size=4, replace=False))
        self.obs = rng.uniform(0.2, 2.0, size=4)
        self.em = sorted(D.ERROR_MODELS)[int(rng.integers(4))]
        self.mode = ['fresh', 's1_first'][int(rng.integers(2))]
        self.cls = 'LogLikelihood(sbml)/' + self.mode

    def n_fixed(self, obj):
        return None

    def _ll(self):
        from chi.library import ModelLibrary
        m = ModelLibrary().one_compartment_pk_model()
        m.set_administration('central', direct=self.direct)
        m.set_dosing_regimen(2.0, start=0.1, duration=0.3, period=1.5, num=2)
        return chi.LogLikelihood(m, getattr(chi, self.em)(), self.obs,
                                 self.times)

    def make(self):
        a, b = self._ll(), self._ll()
        self.full_names = b.get_parameter_names()
        self.n_mech = len(self.full_names) - D.ERROR_MODELS[self.em][0]
        if self.mode == 's1_first':
            a.evaluateS1(self.point(np.random.default_rng(0)))
        return a, b

    def zero_names(self):
        return []

    def point(self, rng):
        return np.concatenate([
            rng.uniform(0.5, 1.5, self.n_mech),
            rng.uniform(0.2, 0.5, len(self.full_names) - self.n_mech)])

    def evals(self, obj, x, mask):
        s, g = obj.evaluateS1(x)
        return {'value': obj(x), 'pointwise': obj.compute_pointwise_ll(x),
                's1_score': s, 'gradient': np.asarray(g, dtype=float)}

    def evals_twin(self, twin, xf, mask):
        out = self.evals(twin, xf, None)
        out['gradient'] = out['gradient'][mask]
        return out


def sbml_all_mechanistic_case(ctx, rng, idx):
    """histories that end with every mechanistic parameter fixed"""
    ad = SbmlLogLikelihoodAdapter(rng)
    ad.make()
    full = list(ad.full_names)
    x = ad.point(rng)
    mech = full[:ad.n_mech]
    order = [mech[i] for i in rng.permutation(len(mech))]
    k = int(rng.integers(1, len(mech) + 1))
    hist = [{n: float(x[full.index(n)]) for n in order[:k]}]
    if k < len(mech):
        hist.append({n: float(x[full.index(n)]) for n in order[k:]})
    if rng.random() < 0.5:
        hist.append({order[0]: None})
        hist.append({order[0]: float(x[full.index(order[0])])})
    ctx.case((ad.cls, 'all_mechanistic', k, len(hist)), True,
             sample={'class': ad.cls, 'history': hist})
    run_history(ctx, rng, ad, hist, 'all_mechanistic')


ADAPTERS = [ErrorModelAdapter, ToyMechAdapter, SbmlMechAdapter, PopAdapter,
            LogLikelihoodAdapter, PredictiveAdapter, PopPredictiveAdapter,
            ControllerAdapter, SbmlLogLikelihoodAdapter]


# ---------------------------------------------------------------- engine
def _compare(ctx, ad, got, want, step, hist, feats, rtol):
    finite = True
    for vk in ('value', 'likelihood'):
        if vk in want and not np.all(np.isfinite(np.asarray(
                want[vk], dtype=float))):
            finite = False
    for key in want:
        if not finite and key not in ('value', 'likelihood', 's1_score',
                                      's1_score_reduced'):
            continue
        a, b = got.get(key), want[key]
        ctx.count('twin_comparisons')
        ok = True
        if isinstance(b, (str, list, tuple)) and not isinstance(
                b, np.ndarray) and (isinstance(b, str) or (
                    len(b) and isinstance(b[0], str))):
            ok = list(a) == list(b) if not isinstance(b, str) else a == b
        else:
            try:
                aa, bb = np.asarray(a, dtype=float), np.asarray(b, dtype=float)
                sc = max(1.0, float(np.max(np.abs(bb)))
                         if bb.size and np.any(np.isfinite(bb)) else 1.0)
                ok = aa.shape == bb.shape and ctx.close(
                    aa, bb, rtol=rtol, atol=rtol * sc)
            except (TypeError, ValueError):
                ok = repr(a) == repr(b)
        if not ok:
            ctx.violation('equals_unfixed_twin_at_substituted_vector',
                          'twin_mismatch:%s:%s' % (ad.cls, key),
                          {'reduced': a, 'twin': b, 'step': step,
                           'history': hist}, feats)
            return False
    return True


def run_history(ctx, rng, ad, history, tag):
    """history: list of dicts (value None = release)"""
    feats = {'class': ad.cls, 'history_length': len(history)}
    try:
        obj, twin = ad.make()
    except Exception as e:      # noqa
        ctx.violation_exc('construction_raises', e, {'class': ad.cls}, feats)
        return
    full = list(ad.full_names)
    net = {}
    hist_desc = []
    rtol = getattr(ad, 'rtol', 1e-10)
    earlier = None
    ctx.count('histories')
    for step, d in enumerate(history):
        d = {k: v for k, v in d.items()}
        hist_desc.append({k: (None if v is None else round(float(v), 4))
                          for k, v in d.items()})
        for k, v in d.items():
            if k in full:
                if v is None:
                    if k in net:
                        ctx.count('release_steps')
                    net.pop(k, None)
                else:
                    if k in net and net[k] != v:
                        ctx.count('refix_steps')
                    net[k] = float(v)
        try:
            ad.fix(obj, d)
        except Exception as e:      # noqa
            ctx.violation_exc('fix_parameters_raises', e,
                              {'history': hist_desc, 'class': ad.cls}, feats)
            return
        mask = np.array([n not in net for n in full])
        # names / counts
        want_names = [n for n in full if n not in net]
        got_names = ad.names(obj)
        nf = ad.n_fixed(obj)
        if got_names != want_names or ad.n_parameters(obj) != len(
                want_names) or (nf is not None and nf != len(net)):
            ctx.violation('names_and_counts_list_free_parameters',
                          'names_or_counts:' + ad.cls,
                          {'names': got_names, 'expected': want_names,
                           'n_parameters': ad.n_parameters(obj),
                           'n_fixed': nf, 'history': hist_desc}, feats)
            return
        if not np.any(mask) and not getattr(ad, 'evaluate_all_fixed',
                                            False):
            continue            # everything fixed: adapter cannot evaluate
        if not np.any(mask):
            ctx.count('all_fixed_evaluations')
        # evaluation
        xf = ad.point(rng)
        for k, v in net.items():
            xf[full.index(k)] = v
        x = xf[mask].copy()
        x.setflags(write=False)
        try:
            got = ad.evals(obj, x, mask)
        except Exception as e:      # noqa
            ctx.violation_exc('evaluation_raises_after_fixing', e,
                              {'history': hist_desc, 'class': ad.cls},
                              feats)
            return
        want = ad.evals_twin(twin, xf, mask)
        if not _compare(ctx, ad, got, want, step, hist_desc, feats, rtol):
            return
        # results handed out earlier keep their values
        if earlier is not None:
            snap, live = earlier
            ctx.count('results_rechecked_after_later_call')
            for key in snap:
                if isinstance(snap[key], np.ndarray) and not np.array_equal(
                        snap[key], np.asarray(live[key]), equal_nan=True):
                    ctx.violation('earlier_result_keeps_its_values',
                                  'result_changed_by_later_call:%s:%s' % (
                                      ad.cls, key),
                                  {'before': snap[key],
                                   'after': np.asarray(live[key]),
                                   'history': hist_desc}, feats)
                    return
        earlier = ({k: np.array(v, dtype=float) for k, v in got.items()
                    if isinstance(v, np.ndarray)}, got)
    return net


def _random_history(rng, ad, full, length):
    """fixed values are drawn inside the support (fresh evaluation points);
    at least one parameter always stays free"""
    hist = []
    fixed = set()
    for _ in range(length):
        op = ['fix', 'fix', 'refix', 'release', 'mixed', 'unknown',
              'empty'][int(rng.integers(7))]
        k = int(rng.integers(1, max(2, len(full))))
        names = [full[i] for i in rng.permutation(len(full))[:k]]
        x = ad.point(rng)
        val = {n: float(x[full.index(n)]) for n in full}
        for n in ad.zero_names():
            r = rng.random()
            if r < 0.2:
                val[n] = [0.0, 0, np.float64(0.0)][int(rng.integers(3))]
            elif r < 0.3:
                val[n] = [1, np.int64(1)][int(rng.integers(2))]
        if op in ('fix', 'refix'):
            d = {n: val[n] for n in names}
        elif op == 'release':
            d = {n: None for n in names}
        elif op == 'mixed':
            d = {n: (None if rng.random() < 0.5 else val[n]) for n in names}
        elif op == 'unknown':
            d = {'no such parameter': 1.0}
        else:
            d = {}
        after = set(fixed)
        for n, v in d.items():
            if n in full:
                after.discard(n) if v is None else after.add(n)
        if len(after) >= len(full) and not (
                getattr(ad, 'evaluate_all_fixed', False) and
                rng.random() < 0.5):
            # drop one newly fixed name so that a parameter stays free
            newly = sorted(n for n, v in d.items()
                           if v is not None and n not in fixed)
            if newly:
                d.pop(newly[0])
                after.discard(newly[0])
        fixed = after
        hist.append(d)
    return hist


def random_case(ctx, rng, idx):
    ad = ADAPTERS[idx % len(ADAPTERS)](rng)
    ad.make()
    full = list(ad.full_names)
    length = int(rng.integers(1, 7))
    hist = _random_history(rng, ad, full, length)
    sig = tuple('|'.join(sorted(
        ('-' if v is None else '+') + str(full.index(k) if k in full else '?')
        for k, v in d.items())) for d in hist)
    ctx.case((ad.cls, sig), len(hist) >= 2,
             sample={'class': ad.cls, 'history': [
                 {k: v for k, v in d.items()} for d in hist]})
    run_history(ctx, rng, ad, hist, 'random')


OPS = ['fix_a', 'fix_b', 'release_a', 'release_b', 'fix_both']
HISTS = [h for n in (1, 2, 3) for h in itertools.product(OPS, repeat=n)]


def exhaustive_case(ctx, rng, idx):
    n_h = len(HISTS)
    ad = ADAPTERS[(idx // n_h) % len(ADAPTERS)](rng)
    ops = HISTS[idx % n_h]
    ad.make()
    full = list(ad.full_names)
    if len(full) < 2:
        a = b = full[0]
    else:
        ia, ib = rng.choice(len(full), size=2, replace=False)
        a, b = full[ia], full[ib]
    x = ad.point(rng)
    va, vb = float(x[full.index(a)]), float(x[full.index(b)])
    hist = []
    for op in ops:
        hist.append({'fix_a': {a: va}, 'fix_b': {b: vb},
                     'release_a': {a: None}, 'release_b': {b: None},
                     'fix_both': {a: va, b: vb}}[op])
    ctx.case((ad.cls, ops), len(ops) >= 2,
             sample={'class': ad.cls, 'ops': ops, 'a': a, 'b': b})
    run_history(ctx, rng, ad, hist, 'exhaustive')


def sibling_case(ctx, rng, idx):
    """objects that were built from the same (already reduced) user objects
    are independent: fixing / releasing on one leaves its siblings - and the
    controller or error model they came from - exactly as they were"""
    route = ['shared_reduced_error_model', 'controller'][idx % 2]
    cname = sorted(D.ERROR_MODELS)[(idx // 2) % 4]
    em_names = getattr(chi, cname)().get_parameter_names()
    n_em = len(em_names)
    fixed_em = {em_names[int(rng.integers(n_em))]: float(
        rng.uniform(0.2, 0.5))}
    feats = {'route': route, 'error_model': cname, 'fixed': sorted(fixed_em)}
    ctx.case(('sibling', route, cname, tuple(sorted(fixed_em))), True,
             sample=feats)
    times = [np.sort(rng.choice(GL.POOL[1:], size=3, replace=False))
             for _ in range(2)]
    obs = [rng.uniform(1, 4, size=3) for _ in range(2)]

    def build():
        if route == 'controller':
            rows = []
            for i in range(2):
                for tt, vv in zip(times[i], obs[i]):
                    rows.append({'ID': i + 1, 'Time': float(tt),
                                 'Observable': 'Out 1', 'Value': float(vv)})
            c = chi.ProblemModellingController(
                toys.ToyMulti(1), getattr(chi, cname)())
            c.set_data(pd.DataFrame(rows))
            c.fix_parameters(dict(fixed_em))
            n = c.get_n_parameters()
            c.set_log_prior(pints.ComposedLogPrior(*[
                pints.GaussianLogPrior(0.5, 3) for _ in range(n)]))
            posts = [c.get_log_posterior(individual=str(i + 1))
                     for i in range(2)]
            return c, [q.get_log_likelihood() for q in posts]
        rem = chi.ReducedErrorModel(getattr(chi, cname)())
        rem.fix_parameters(dict(fixed_em))
        return rem, [chi.LogLikelihood(toys.ToyMulti(1), rem, obs[i],
                                       times[i]) for i in range(2)]
    try:
        src, (a, b) = build()
        src_t, (_, b_twin) = build()
    except Exception as e:      # noqa
        ctx.violation_exc('construction_raises', e, {'case': feats}, feats)
        return
    full = ['a1', 'k', 'b'] + list(em_names)

    def src_names(o):
        return list(o.get_parameter_names())

    def snapshot(ll):
        nm = list(ll.get_parameter_names())
        x = np.array([{'a1': 2.0, 'k': 0.3, 'b': 0.4}.get(n_, 0.3)
                      for n_ in nm])
        s_, g_ = ll.evaluateS1(x)
        return {'names': nm, 'n_parameters': ll.n_parameters(),
                'value': ll(x), 's1_score': s_,
                'gradient': np.asarray(g_, dtype=float),
                'pointwise': np.asarray(ll.compute_pointwise_ll(x))}
    names_src0 = src_names(src)
    hist = []
    for step in range(int(rng.integers(1, 5))):
        cur = list(a.get_parameter_names())
        fixed_now = [n_ for n_ in full if n_ not in cur]
        d = {}
        for n_ in full:
            r = rng.random()
            if n_ in fixed_now and r < 0.5:
                d[n_] = None
            elif n_ not in fixed_now and r < 0.3 and len(cur) - len(
                    [v for v in d.values() if v is not None]) > 1:
                d[n_] = float(rng.uniform(0.2, 0.6))
            elif n_ in fixed_now and r < 0.7:
                d[n_] = float(rng.uniform(0.2, 0.6))
        if not d:
            d = {list(fixed_em)[0]: None}
        hist.append({k_: (None if v is None else round(v, 3))
                     for k_, v in d.items()})
        try:
            a.fix_parameters(d)
            got = snapshot(b)
            want = snapshot(b_twin)
        except Exception as e:      # noqa
            ctx.violation_exc('sibling_evaluation_raises', e,
                              {'history_on_sibling': hist, 'case': feats},
                              feats)
            return
        ctx.count('sibling_comparisons')
        for key in want:
            same = got[key] == want[key] if not isinstance(
                want[key], np.ndarray) else (
                np.shape(got[key]) == np.shape(want[key]) and np.allclose(
                    got[key], want[key], rtol=1e-12, atol=0, equal_nan=True))
            if not same:
                ctx.violation('depends_only_on_own_fixed_set',
                              'sibling_changed:%s:%s' % (route, key),
                              {'what': key, 'sibling': got[key],
                               'untouched_twin': want[key],
                               'history_on_other_object': hist}, feats)
                return
        if src_names(src) != names_src0:
            ctx.violation('depends_only_on_own_fixed_set',
                          'source_object_changed:' + route,
                          {'before': names_src0, 'now': src_names(src),
                           'history_on_derived_object': hist}, feats)
            return


def controller_population_case(ctx, rng, idx):
    """posteriors and predictive models a controller handed out keep their
    own fixed set: later fix_parameters calls on the controller (or on
    another derived object) do not change them"""
    n_ids = int(rng.integers(2, 4))
    rows = []
    for i in range(n_ids):
        for tt in np.sort(rng.choice(GL.POOL[1:], size=3, replace=False)):
            rows.append({'ID': i + 1, 'Time': float(tt),
                         'Observable': 'Out 1',
                         'Value': float(rng.uniform(1, 4))})
    data = pd.DataFrame(rows)
    mutate = ['controller_refix', 'controller_fix_other',
              'predictive_model_fix'][idx % 3]
    feats = {'route': 'controller_population', 'n_ids': n_ids,
             'later_call': mutate}
    ctx.case(('controller_population', n_ids, mutate), True, sample=feats)

    def build():
        c = chi.ProblemModellingController(
            toys.ToyMulti(1), chi.GaussianErrorModel())
        c.set_data(data.copy())
        c.set_population_model(chi.ComposedPopulationModel([
            chi.GaussianModel(), chi.PooledModel(),
            chi.LogNormalModel(n_dim=2)]))
        c.fix_parameters({'Pooled k': 0.3})
        n = c.get_n_parameters()
        c.set_log_prior(pints.ComposedLogPrior(*[
            pints.GaussianLogPrior(0.5, 3) for _ in range(n)]))
        return c, c.get_log_posterior(), c.get_predictive_model()

    def snapshot(post, pm):
        n = post.n_parameters()
        nt = post.n_parameters(exclude_bottom_level=True)
        x = np.concatenate([np.tile([2.0, 0.4, 0.3], n_ids),
                            [2.0, 0.5, -1.0, -1.2, 0.4, 0.3]])[:n] \
            if n == 3 * n_ids + 6 else np.full(n, 0.5)
        s_, g_ = post.evaluateS1(x)
        return {'n_parameters': n, 'names': list(post.get_parameter_names()),
                'value': post(x), 's1_score': s_,
                'gradient': np.asarray(g_, dtype=float),
                'predictive_names': list(pm.get_parameter_names()),
                'predictive_sample': np.asarray(pm.sample(
                    np.array([2.0, 0.5, -1.0, -1.2, 0.4, 0.3])[:nt]
                    if nt == 6 else np.full(pm.n_parameters(), 0.5),
                    TIMES, n_samples=2, seed=4, return_df=False))}
    try:
        c, post, pm = build()
        before = snapshot(post, pm)
        if mutate == 'controller_refix':
            c.fix_parameters({'Pooled k': 0.9})
        elif mutate == 'controller_fix_other':
            c.fix_parameters({'Std. a1': 0.7})
        else:
            c.get_predictive_model().fix_parameters({'Std. a1': 0.7})
        after = snapshot(post, pm)
    except Exception as e:      # noqa
        ctx.violation_exc('derived_object_raises_after_later_fix', e,
                          {'case': feats}, feats)
        return
    ctx.count('sibling_comparisons')
    for key in before:
        a, b = after[key], before[key]
        same = a == b if not isinstance(b, np.ndarray) else (
            np.shape(a) == np.shape(b) and np.allclose(
                a, b, rtol=1e-12, atol=0, equal_nan=True))
        if not same:
            ctx.violation('depends_only_on_own_fixed_set',
                          'derived_object_changed:%s:%s' % (mutate, key),
                          {'what': key, 'before': b, 'after': a}, feats)
            return


def prefixed_error_case(ctx, rng, idx):
    """multi-output objects built from error models that already carry fixed
    parameters: every error parameter - fixed or free - is addressed by its
    output-prefixed name, so releasing / re-fixing it by that name works"""
    route = ['reduced_error_models', 'controller'][idx % 2]
    holder = ['LogLikelihood', 'PredictiveModel'][(idx // 2) % 2]
    cnames = [sorted(D.ERROR_MODELS)[int(rng.integers(4))] for _ in range(2)]
    o_fix = int(rng.integers(2))
    # output names as long as those of compartment models (the prefixed
    # error parameter names then exceed 50 characters)
    long_names = rng.random() < 0.5
    onames = ['central_compartment.free_drug_concentration_no_%d' % (o + 1)
              if long_names else 'Out %d' % (o + 1) for o in range(2)]
    em_full = []
    for o, cn in enumerate(cnames):
        em_full += ['%s %s' % (onames[o], n_) for n_ in getattr(
            chi, cn)().get_parameter_names()]
    full = ['a1', 'a2', 'k', 'b'] + em_full
    base_names = getattr(chi, cnames[o_fix])().get_parameter_names()
    j = int(rng.integers(len(base_names)))
    fixed_public = '%s %s' % (onames[o_fix], base_names[j])
    value = float(rng.uniform(0.2, 0.5))
    feats = {'route': route, 'holder': holder, 'error_models': cnames,
             'fixed': fixed_public, 'long_output_names': long_names}
    ctx.case(('prefixed_error', route, holder, tuple(cnames), fixed_public,
              long_names),
             True, sample=feats)
    times = [np.sort(rng.choice(GL.POOL[1:], size=3, replace=False))
             for _ in range(2)]
    obs = [rng.uniform(1, 4, size=3) for _ in range(2)]
    try:
        if route == 'controller':
            rows = []
            for o in range(2):
                for tt, vv in zip(times[o], obs[o]):
                    rows.append({'ID': 1, 'Time': float(tt),
                                 'Observable': onames[o],
                                 'Value': float(vv)})
            c = chi.ProblemModellingController(
                toys.ToyMulti(2, onames), [getattr(chi, cn)() for cn in cnames])
            c.set_data(pd.DataFrame(rows))
            c.fix_parameters({fixed_public: value})
            if holder == 'LogLikelihood':
                c.set_log_prior(pints.ComposedLogPrior(*[
                    pints.GaussianLogPrior(0.5, 3)
                    for _ in range(c.get_n_parameters())]))
                obj = c.get_log_posterior().get_log_likelihood()
            else:
                obj = c.get_predictive_model()
        else:
            ems = [getattr(chi, cn)() for cn in cnames]
            ems[o_fix] = chi.ReducedErrorModel(ems[o_fix])
            ems[o_fix].fix_parameters({base_names[j]: value})
            if holder == 'LogLikelihood':
                obj = chi.LogLikelihood(toys.ToyMulti(2, onames), ems, obs, times)
            else:
                obj = chi.PredictiveModel(toys.ToyMulti(2, onames), ems)
    except Exception as e:      # noqa
        if long_names and 'cannot exceed 50 characters' in str(e):
            # the documented (and pinned) limit on the names of a reduced
            # error model: a refusal, not a wrong result
            ctx.reject('name limit of ReducedErrorModel')
            return
        ctx.violation_exc('construction_raises', e, {'case': feats}, feats)
        return
    ctx.count('prefixed_error_objects')
    want = [n_ for n_ in full if n_ != fixed_public]
    got = list(obj.get_parameter_names())
    if got != want:
        ctx.violation('names_and_counts_list_free_parameters',
                      'names_with_prefixed_fixed_error_parameter',
                      {'names': got, 'expected': want}, feats)
        return
    try:
        obj.fix_parameters({fixed_public: None})
        got = list(obj.get_parameter_names())
        if got != full:
            ctx.violation('release_restores_the_parameter',
                          'release_by_prefixed_name_ignored',
                          {'released': fixed_public, 'names': got,
                           'expected': full}, feats)
            return
        new_val = float(rng.uniform(0.2, 0.5))
        obj.fix_parameters({fixed_public: new_val})
        got = list(obj.get_parameter_names())
        if got != want:
            ctx.violation('names_and_counts_list_free_parameters',
                          'refix_by_prefixed_name_ignored',
                          {'names': got, 'expected': want}, feats)
    except Exception as e:      # noqa
        ctx.violation_exc('fix_parameters_raises', e, {'case': feats}, feats)


def dosed_after_fixing_case(ctx, rng, idx):
    """a predictive model with fixed mechanistic parameters that is given a
    dosing regimen (before or after the fixing) samples what the unfixed
    model samples at the substituted vector, and reports the same dose
    events"""
    from chi.library import ModelLibrary
    from harness.oracle import regimen as R
    pop = idx % 2 == 1

    def build():
        m = ModelLibrary().one_compartment_pk_model()
        m.set_administration('central', direct=direct)
        pm = chi.PredictiveModel(m, [chi.GaussianErrorModel()])
        if pop:
            pmod = chi.PooledModel(n_dim=pm.n_parameters())
            pmod.set_dim_names(pm.get_parameter_names())
            pm = chi.PopulationPredictiveModel(pm, pmod)
        return pm
    direct = bool(rng.integers(2))
    dose = float(rng.uniform(0.5, 3))
    start = float(rng.uniform(0, 1))
    duration = float(rng.uniform(0.05, 0.3))
    period = [None, float(rng.uniform(0.4, 1.2))][int(rng.integers(2))]
    num = None if period is None else [None, 0, int(rng.integers(1, 4))][
        int(rng.integers(3))]
    order = ['fix_then_regimen', 'regimen_then_fix',
             'fix_regimen_release_one'][idx // 2 % 3]
    times = np.array([0.5, 1.5, 3.0, 6.0])
    feats = {'family': 'dosed_after_fixing', 'population': pop,
             'order': order, 'periodic': period is not None,
             'num': repr(num)}
    ctx.case(('dosed_after_fixing', pop, order, period is None, repr(num)),
             True, sample=dict(feats, regimen=[dose, start, duration, period,
                                               num]))
    try:
        twin, fixed = build(), build()
        names = fixed.get_parameter_names()
        x = rng.uniform(0.5, 1.5, len(names))
        k = int(rng.integers(1, len(names)))
        pick = sorted(rng.permutation(len(names) - 1)[:k].tolist())
        fx = {names[i]: float(x[i]) for i in pick}
        twin.set_dosing_regimen(dose, start, duration, period, num)
        if order == 'regimen_then_fix':
            fixed.set_dosing_regimen(dose, start, duration, period, num)
            fixed.fix_parameters(fx)
        else:
            fixed.fix_parameters(fx)
            fixed.set_dosing_regimen(dose, start, duration, period, num)
        free = np.ones(len(names), dtype=bool)
        free[pick] = False
        if order == 'fix_regimen_release_one':
            j = pick[0]
            fixed.fix_parameters({names[j]: None})
            free[j] = True
        seed = int(rng.integers(1, 1000))
        a = np.asarray(fixed.sample(x[free], times, n_samples=2, seed=seed,
                                    return_df=False), dtype=float)
        b = np.asarray(twin.sample(x, times, n_samples=2, seed=seed,
                                   return_df=False), dtype=float)
        ra = fixed.get_dosing_regimen(float(times[-1]))
        rb = twin.get_dosing_regimen(float(times[-1]))
    except Exception as e:      # noqa
        ctx.violation_exc('evaluation_raises_after_fixing', e,
                          {'case': feats}, feats)
        return
    ctx.count('dosed_models_compared')
    ev = R.events(dose, start, duration, period, num, float(times[-1]))

    def rows(df):
        if df is None:
            return []
        return sorted((float(t_), float(d_), float(a_)) for t_, d_, a_ in
                      zip(df['Time'], df['Duration'], df['Dose']))
    want = sorted((s_, d_, a_) for s_, d_, a_ in ev)
    if a.shape != b.shape or not np.allclose(a, b, rtol=1e-9, atol=1e-12):
        ctx.violation('equals_unfixed_twin_at_substituted_vector',
                      'twin_mismatch:dosed_predictive_model:' + order,
                      {'fixed': a, 'unfixed_twin': b, 'case': feats}, feats)
        return
    for tag, got in (('fixed', rows(ra)), ('unfixed', rows(rb))):
        if len(got) != len(want) or (want and not np.allclose(
                got, want, rtol=1e-12)):
            ctx.violation('reported_regimen_is_the_scheduled_one',
                          'regimen_table:%s_model' % tag,
                          {'reported': got[:6], 'scheduled': want[:6],
                           'case': feats}, feats)
            return


FAMILIES = [
    Family('dosed_after_fixing', dosed_after_fixing_case, quick=72,
           thorough=720),
    Family('random', random_case, quick=1600, thorough=30000),
    Family('exhaustive', exhaustive_case,
           quick=len(HISTS) * len(ADAPTERS),
           thorough=len(HISTS) * len(ADAPTERS) * 4),
    Family('siblings', sibling_case, quick=240, thorough=2400),
    Family('all_mechanistic', sbml_all_mechanistic_case, quick=48,
           thorough=480),
    Family('controller_population', controller_population_case, quick=60,
           thorough=600),
    Family('prefixed_error', prefixed_error_case, quick=160, thorough=1600),
]
