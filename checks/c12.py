"""
C12 - population filters use the documented estimators and are invariant to
missing-data padding, permutation of measured individuals and consistent
re-ordering / splitting of time points.
Oracle: explicit loops over (individual, observable, time) that skip NaNs
(harness/oracle/filters.py), complex-step gradients of the same loops.
"""
import numpy as np

from harness.bootstrap import load_chi
from harness.core import Family
from harness import forms as FM
from harness.oracle import filters as F

chi = load_chi()

PROP = 'C12'
TITLE = 'population filters: documented estimators, missing-data invariance'
RULE = (
    'cases = (filter class [mixture with 2-4 kernels], measurement array '
    'n_ids 1-8 x 1-3 observables x 1-6 times with a random NaN pattern '
    'leaving >=1 value per cell, >=2 simulated individuals [mixture: k*m, '
    'm>=2]); metamorphic pairs: NaN padding, permutation of measured '
    'individuals, sort_times (once and twice), splitting the time axis with '
    'ComposedPopulationFilter (nested once) with and without sort_times; '
    'signature = (class, shape bucket, NaN?, transformation); non-trivial = '
    'has NaNs or >=2 observables/times or a transformation')
ASSUMPTIONS = [
    'documented estimators: empirical mean / ddof=1 variance over simulated '
    'individuals per (observable, time); KDE bandwidth (4/(3 n_s))^(1/5) * '
    'std of the simulated values (the property statement; the '
    'LogNormalKDEFilter docstring names the measurements instead)',
    'measurements and simulated values are positive for log-normal filters; '
    'cell variances are bounded away from zero by the generator',
    'filters and population models document np.ndarray inputs: input forms are array forms only; integer-valued data with a zero-spread cell is not generated',
    'log-normal filters with non-positive simulated values: only consistency (padding invariance, S1 parity) is demanded, no particular value',
]
ANCHORS = [
    'chi._population_filters.%s.%s' % (c, m)
    for c in ('GaussianFilter', 'LogNormalFilter', 'GaussianKDEFilter',
              'LogNormalKDEFilter', 'GaussianMixtureFilter',
              'ComposedPopulationFilter')
    for m in ('compute_log_likelihood', 'compute_sensitivities')
] + ['chi._population_filters.ComposedPopulationFilter.sort_times',
     'chi._population_filters.PopulationFilter.sort_times']
REQUIRED = {'value_compared': 200, 'gradient_entries_compared': 500,
            'metamorphic_pairs': 200, 'composed_cases': 50,
            'cases_with_nan': 50}

CLASSES = ['GaussianFilter', 'LogNormalFilter', 'GaussianKDEFilter',
           'LogNormalKDEFilter', 'GaussianMixtureFilter']


def ref_value(cname, obs, sim, k):
    if cname == 'GaussianFilter':
        return F.gauss(obs, sim)
    if cname == 'LogNormalFilter':
        return F.lognormal(obs, sim)
    if cname == 'GaussianKDEFilter':
        return F.gauss_kde(obs, sim)
    if cname == 'LogNormalKDEFilter':
        return F.lognormal_kde(obs, sim)
    return F.gauss_mixture(obs, sim, k)


def make_filter(cname, obs, k):
    if cname == 'GaussianMixtureFilter':
        return chi.GaussianMixtureFilter(obs, n_kernels=k)
    return getattr(chi, cname)(obs)


def gen(rng, cname, n_times=None):
    n_ids = int(rng.integers(1, 9))
    n_obs = int(rng.integers(1, 4))
    n_times = n_times or int(rng.integers(1, 7))
    k = int(rng.integers(2, 5))
    if cname == 'GaussianMixtureFilter':
        n_sim = k * int(rng.integers(2, 5))
    else:
        n_sim = int(rng.integers(2, 10))
    base = rng.uniform(1.0, 5.0, size=(1, n_obs, n_times))
    obs = base * np.exp(0.3 * rng.normal(size=(n_ids, n_obs, n_times)))
    sim = base * np.exp(0.3 * rng.normal(size=(n_sim, n_obs, n_times)))
    # make sure that cell spreads are not tiny
    sim[0] *= 1.2
    sim[-1] *= 0.8
    # the unit of the measurements is arbitrary (mol/L instead of nmol/L):
    # the documented estimators are scale equivariant
    unit = 10.0 ** float(rng.choice([0, 0, 0, 0, -12, -9, -6, -3, 3, 6]))
    obs = obs * unit
    sim = sim * unit
    has_nan = bool(rng.random() < 0.6) and n_ids > 1
    if has_nan:
        mask = rng.random(size=obs.shape) < 0.35
        # keep at least one value per cell
        for r in range(n_obs):
            for j in range(n_times):
                if np.all(mask[:, r, j]):
                    mask[int(rng.integers(n_ids)), r, j] = False
        obs[mask] = np.nan
        has_nan = bool(np.any(mask))
    return obs, sim, k, has_nan


def _grad_entries(rng, shape, n=14):
    idx = [tuple(int(v) for v in np.unravel_index(i, shape))
           for i in rng.permutation(int(np.prod(shape)))[:n]]
    return idx


def _check(ctx, flt, ref_fn, sim, feats, rng, tag, describe):
    """value + S1 score + gradient on random entries"""
    sim_in = sim.copy()
    sim_in.setflags(write=False)
    try:
        val = flt.compute_log_likelihood(sim_in)
        score, grad = flt.compute_sensitivities(sim_in)
    except Exception as e:      # noqa
        ctx.violation_exc('evaluation_raises', e, {'case': describe}, feats)
        return None
    ref = float(np.real(ref_fn(sim.astype(complex))))
    ctx.count('value_compared')
    sc = abs(ref) + 1
    ctx.maximum('value_relerr', ctx.relerr(val, ref, scale=sc))
    if not ctx.close(val, ref, rtol=1e-10, scale=sc):
        ctx.violation('value_vs_documented_estimator',
                      'value_mismatch:%s:%s' % (feats['class'], tag),
                      {'chi': val, 'reference': ref,
                       'difference': float(val - ref), 'case': describe},
                      feats)
    if not ctx.close(score, val, rtol=1e-10, scale=sc):
        ctx.violation('s1_score_equals_value',
                      's1_score:%s:%s' % (feats['class'], tag),
                      {'s1': score, 'value': val, 'case': describe}, feats)
    grad = np.asarray(grad, dtype=float)
    if grad.shape != sim.shape:
        ctx.violation('gradient_shape', 'gradient_shape:' + feats['class'],
                      {'shape': grad.shape, 'expected': sim.shape}, feats)
        return val
    entries = _grad_entries(rng, sim.shape)
    g_ref = np.empty(len(entries))
    for q, e in enumerate(entries):
        z = sim.astype(complex)
        z[e] += 1e-30j
        g_ref[q] = np.imag(ref_fn(z)) / 1e-30
    got = np.array([grad[e] for e in entries])
    gs = 1.0 + float(np.max(np.abs(g_ref)))
    ctx.count('gradient_entries_compared', len(entries))
    ctx.maximum('gradient_relerr', ctx.relerr(got, g_ref, scale=gs))
    if not ctx.close(got, g_ref, rtol=1e-8, scale=gs):
        ctx.violation('gradient_vs_complex_step',
                      'gradient_mismatch:%s:%s' % (feats['class'], tag),
                      {'chi': got, 'reference': g_ref, 'entries': entries,
                       'case': describe}, feats)
    return val


def base_case(ctx, rng, idx):
    cname = CLASSES[idx % len(CLASSES)]
    obs, sim, k, has_nan = gen(rng, cname)
    feats = {'class': cname, 'shape': obs.shape, 'n_sim': len(sim),
             'kernels': k if cname == 'GaussianMixtureFilter' else None,
             'has_nan': has_nan}
    describe = dict(feats, observations=obs, simulated=sim)
    ctx.case((cname, min(obs.shape[0], 3), obs.shape[1], min(obs.shape[2], 3),
              has_nan, feats['kernels']),
             has_nan or obs.shape[1] > 1 or obs.shape[2] > 1,
             sample=describe)
    if has_nan:
        ctx.count('cases_with_nan')
    obs_in = obs.copy()
    obs_in.setflags(write=False)
    flt = make_filter(cname, obs_in, k)
    val = _check(ctx, flt, lambda z: ref_value(cname, obs, z, k), sim,
                 feats, rng, 'base', describe)
    if val is None:
        return
    sc = abs(val) + 1

    # ---- one buffer of simulated measurements, overwritten in place
    # between evaluations (a sampler's proposal buffer)
    wb = np.array(sim, dtype=float)
    try:
        flt.compute_log_likelihood(wb)
        for rep in range(2):
            wb *= 1 + 0.05 * rng.random(wb.shape)
            want = float(np.real(ref_value(cname, obs, wb.astype(complex),
                                           k)))
            got = flt.compute_log_likelihood(wb)
            got_s = flt.compute_sensitivities(wb)[0]
            ctx.count('reused_buffer_evaluations')
            if np.isfinite(want) and not (
                    ctx.close(got, want, rtol=1e-9, scale=abs(want) + 1) and
                    ctx.close(got_s, want, rtol=1e-9, scale=abs(want) + 1)):
                ctx.violation('value_vs_documented_estimator',
                              'reused_buffer:' + cname,
                              {'chi': got, 's1': got_s, 'reference': want,
                               'evaluation': rep + 2}, feats)
                break
    except Exception as e:      # noqa
        ctx.violation_exc('evaluation_raises', e,
                          {'case': describe, 'call': 'reused buffer'}, feats)

    # ---- metamorphic: NaN padding
    pad = int(rng.integers(1, 4))
    obs_p = np.concatenate(
        [obs, np.full((pad,) + obs.shape[1:], np.nan)], axis=0)
    ins = rng.permutation(len(obs_p))
    obs_p = obs_p[ins]
    # ---- permutation of measured individuals
    obs_q = obs[rng.permutation(len(obs))]
    for tag, o2 in (('nan_padding', obs_p), ('permute_individuals', obs_q)):
        try:
            v2 = make_filter(cname, o2, k).compute_log_likelihood(sim.copy())
        except Exception as e:      # noqa
            ctx.violation_exc('evaluation_raises', e,
                              {'case': describe, 'transformation': tag},
                              feats)
            continue
        ctx.count('metamorphic_pairs')
        if not ctx.close(v2, val, rtol=1e-10, scale=sc):
            ctx.violation('invariance', 'not_invariant:%s:%s' % (cname, tag),
                          {'original': val, 'transformed': v2,
                           'case': describe}, feats)

    # ---- log-normal filters with a non-positive simulated value (additive
    # noise produces them routinely): whatever such an array scores, it
    # scores the same with and without missing-value padding, and the score
    # returned with the sensitivities is the same
    if cname.startswith('LogNormal') and (idx // 5) % 3 == 0:
        sim_n = sim.copy()
        sim_n[int(rng.integers(len(sim_n))), int(rng.integers(
            sim.shape[1])), int(rng.integers(sim.shape[2]))] = \
            [0.0, -0.7][int(rng.integers(2))]
        try:
            vals = {}
            for tag, o2 in (('plain', obs), ('nan_padding', obs_p)):
                f2 = make_filter(cname, o2, k)
                with np.errstate(all='ignore'):
                    vals[tag] = float(f2.compute_log_likelihood(
                        sim_n.copy()))
                    vals[tag + ':s1'] = float(f2.compute_sensitivities(
                        sim_n.copy())[0])
            ctx.count('nonpositive_simulations')
            ref_v = vals['plain']
            if any(not FM.same(v_, ref_v) for v_ in vals.values()):
                ctx.violation('invariance',
                              'nonpositive_simulation_scores_differ:' + cname,
                              {'scores': vals, 'case': describe}, feats)
        except Exception as e:      # noqa
            ctx.violation_exc('evaluation_raises', e,
                              {'case': describe,
                               'transformation': 'non-positive simulation'},
                              feats)

    # ---- all simulated individuals share one value at a time point (a
    # model output that does not depend on the sampled parameters there,
    # e.g. 0 at t = 0 with noise on the log scale): the sample variance is
    # zero; whatever that scores, it scores the same with and without
    # missing-value padding
    if (idx // 5) % 3 == 1:
        sim_z = sim.copy()
        sim_z[:, int(rng.integers(sim.shape[1])),
              int(rng.integers(sim.shape[2]))] = float(rng.uniform(0.5, 2))
        try:
            vals = {}
            for tag, o2 in (('plain', obs), ('nan_padding', obs_p)):
                f2 = make_filter(cname, o2, k)
                with np.errstate(all='ignore'):
                    vals[tag] = float(f2.compute_log_likelihood(
                        sim_z.copy()))
                    vals[tag + ':s1'] = float(f2.compute_sensitivities(
                        sim_z.copy())[0])
            ctx.count('zero_variance_simulations')
            ref_v = vals['plain']
            if any(not FM.same(v_, ref_v) for v_ in vals.values()):
                ctx.violation('invariance',
                              'zero_variance_simulation_scores_differ:'
                              + cname,
                              {'scores': vals, 'case': describe}, feats)
        except Exception as e:      # noqa
            ctx.violation_exc('evaluation_raises', e,
                              {'case': describe,
                               'transformation': 'zero-variance simulation'},
                              feats)

    # ---- the same numbers in another container / dtype
    # (filters document np.ndarray inputs: array forms only)
    form = FM.pick(rng, ['readonly', 'strided', 'fortran', 'int64', 'int32',
                         'float32', 'int16'])
    is_int = form in ('int64', 'int32', 'int16')
    if form == 'int16':
        # small counts stored in a 16-bit integer array
        unit_ = float(np.nanmax(np.abs(sim))) / 300.0
        obs_f = obs if has_nan else np.round(obs / unit_)
        sim_f = np.round(sim / unit_)
    elif form == 'float32':
        obs_f, sim_f = FM.round32(obs), FM.round32(sim)
    elif is_int:
        obs_f = obs if has_nan else np.round(obs * 10)
        sim_f = np.round(sim * 10)
        # integer data with a degenerate (zero-spread) cell is not generated
        if np.any(np.std(sim_f, axis=0) < 0.5) or (
                not has_nan and len(obs_f) > 1 and
                np.any(np.std(obs_f, axis=0) < 0.5)):
            is_int, form = False, 'strided'
            obs_f, sim_f = obs, sim
    elif form != 'float32':
        obs_f, sim_f = obs, sim
    if form == 'int16':
        ov = obs_f if has_nan else obs_f.astype(np.int16)
        sv = sim_f.astype(np.int16)
    else:
        ov = obs_f if (has_nan and is_int) else FM.variant(obs_f, form)
        sv = FM.variant(sim_f, form)
    if ov is not None and sv is not None:
        try:
            fv = make_filter(cname, ov, k)
            v3 = fv.compute_log_likelihood(sv)
            s3, g3 = fv.compute_sensitivities(sv)
            ref3 = float(np.real(ref_value(cname, obs_f,
                                           sim_f.astype(complex), k)))
            ctx.count('input_forms_compared')
            if np.isfinite(ref3) and not (
                    ctx.close(v3, ref3, rtol=1e-10, scale=abs(ref3) + 1) and
                    ctx.close(s3, ref3, rtol=1e-10, scale=abs(ref3) + 1)
                    and np.asarray(g3).shape == sim.shape):
                ctx.violation('same_numbers_same_result',
                              'input_form:%s:%s' % (cname, form),
                              {'chi': v3, 's1': s3, 'reference': ref3,
                               'observations': obs_f, 'simulated': sim_f},
                              dict(feats, input_form=form))
        except Exception as e:      # noqa
            ctx.violation_exc('evaluation_raises', e,
                              {'case': describe, 'input_form': form},
                              dict(feats, input_form=form))

    # ---- re-ordering of time points through sort_times (once / twice)
    n_t = obs.shape[2]
    o1 = rng.permutation(n_t)
    o2 = rng.permutation(n_t)
    flt2 = make_filter(cname, obs.copy(), k)
    try:
        flt2.sort_times(o1)
        v1 = flt2.compute_log_likelihood(sim[:, :, o1].copy())
        s1, g1 = flt2.compute_sensitivities(sim[:, :, o1].copy())
        flt2.sort_times(o2)
        v2 = flt2.compute_log_likelihood(sim[:, :, o1][:, :, o2].copy())
    except Exception as e:      # noqa
        ctx.violation_exc('evaluation_raises', e,
                          {'case': describe, 'transformation': 'sort_times'},
                          feats)
        return
    ctx.count('metamorphic_pairs', 2)
    if not ctx.close(v1, val, rtol=1e-10, scale=sc):
        ctx.violation('invariance', 'not_invariant:%s:sort_times' % cname,
                      {'original': val, 'transformed': v1, 'order': o1,
                       'case': describe}, feats)
    if not ctx.close(v2, val, rtol=1e-10, scale=sc):
        ctx.violation('invariance',
                      'not_invariant:%s:sort_times_twice' % cname,
                      {'original': val, 'transformed': v2, 'orders': [o1, o2],
                       'case': describe}, feats)
    # gradient is in the ordering of the input
    _, g0 = flt.compute_sensitivities(sim.copy())
    if np.asarray(g1).shape == sim.shape and not ctx.close(
            np.asarray(g1, dtype=float),
            np.asarray(g0, dtype=float)[:, :, o1], rtol=1e-9,
            scale=1 + np.max(np.abs(g0))):
        ctx.violation('gradient_in_input_order',
                      'gradient_order:%s:sort_times' % cname,
                      {'order': o1, 'case': describe}, feats)


def _split(rng, n_t):
    """random split of range(n_t) into consecutive blocks"""
    if n_t == 1:
        return [1]
    cuts = sorted(rng.choice(np.arange(1, n_t),
                             size=int(rng.integers(1, min(3, n_t - 1) + 1)),
                             replace=False).tolist())
    edges = [0] + cuts + [n_t]
    return [b - a for a, b in zip(edges[:-1], edges[1:])]


def composed_case(ctx, rng, idx):
    n_t = int(rng.integers(2, 8))
    # (a composite of a single filter is a legitimate wrapper: it still
    # owes the deferred re-ordering of sort_times)
    blocks = [n_t] if rng.random() < 0.15 else _split(rng, n_t)
    cnames = [CLASSES[int(rng.integers(len(CLASSES)))] for _ in blocks]
    same = rng.random() < 0.4
    if same:
        cnames = [cnames[0]] * len(blocks)
    # a common number of simulated individuals that suits every block
    ks = [int(rng.integers(2, 4)) for _ in blocks]
    n_sim = int(np.lcm.reduce(ks)) * 2
    obs, sim, _, has_nan = gen(rng, 'GaussianFilter', n_times=n_t)
    base = np.mean(sim, axis=0, keepdims=True)
    sim = base * np.exp(0.3 * rng.normal(size=(n_sim,) + sim.shape[1:]))
    nested = len(blocks) >= 3 and rng.random() < 0.5
    sort = int(rng.integers(0, 3))      # 0: none, 1: once, 2: twice
    feats = {'class': 'ComposedPopulationFilter', 'parts': cnames,
             'blocks': blocks, 'kernels': ks, 'nested': nested,
             'sort_times_calls': sort, 'has_nan': has_nan,
             'shape': obs.shape, 'n_sim': n_sim}
    describe = dict(feats, observations=obs, simulated=sim)
    ctx.case(('composed', tuple(c[:6] for c in cnames), tuple(blocks),
              nested, sort, has_nan, idx % 2), True, sample=describe)
    ctx.count('composed_cases')
    if has_nan:
        ctx.count('cases_with_nan')
    edges = np.concatenate([[0], np.cumsum(blocks)])
    parts = [make_filter(c, obs[:, :, a:b].copy(), k)
             for c, k, a, b in zip(cnames, ks, edges[:-1], edges[1:])]
    order = np.arange(n_t)
    inner_sorted = False
    if nested:
        inner = chi.ComposedPopulationFilter(parts[:2])
        if rng.random() < 0.5:
            # the inner composite is re-ordered on its own before it becomes
            # part of the outer one
            n_in = int(edges[2])
            o_in = rng.permutation(n_in)
            inner.sort_times(o_in)
            order = np.concatenate([o_in, np.arange(n_in, n_t)])
            inner_sorted = True
        flt = chi.ComposedPopulationFilter([inner] + parts[2:])
    else:
        flt = chi.ComposedPopulationFilter(parts)
    feats['inner_sorted'] = inner_sorted
    try:
        for _ in range(sort):
            o = rng.permutation(n_t)
            flt.sort_times(o)
            order = order[o]
    except Exception as e:      # noqa
        ctx.violation_exc('evaluation_raises', e, {'case': describe}, feats)
        return
    feats['net_order'] = order.tolist()

    def ref_fn(z):
        # z is in the (net) sorted order: z[:, :, j] belongs to original
        # time order[j]
        zo = np.empty(z.shape, dtype=complex)
        zo[:, :, order] = z
        s = 0.0
        for c, k, a, b in zip(cnames, ks, edges[:-1], edges[1:]):
            s = s + ref_value(c, obs[:, :, a:b], zo[:, :, a:b], k)
        return s
    tag = 'composed_sort%d' % sort
    val = _check(ctx, flt, ref_fn, sim[:, :, order], feats, rng, tag,
                 describe)
    if val is None:
        return
    # splitting does not change the value: single filter on the whole axis
    if same and cnames[0] != 'GaussianMixtureFilter':
        whole = make_filter(cnames[0], obs.copy(), ks[0])
        v = whole.compute_log_likelihood(sim.copy())
        ctx.count('metamorphic_pairs')
        if not ctx.close(v, val, rtol=1e-10, scale=abs(val) + 1):
            ctx.violation('invariance', 'not_invariant:%s:split' % cnames[0],
                          {'whole': v, 'composed': val, 'case': describe},
                          feats)


def baseline_case(ctx, rng, idx):
    """measurements on a large baseline (a body weight of 1e5 mg, a time
    stamp): the Gaussian-type estimators depend on differences only, so
    shifting measurements and simulated measurements by the same constant
    leaves score and sensitivities unchanged (up to the conditioning of the
    two-pass variance, ~1e-11 here; a one-pass variance loses ~1e-6)"""
    cname = ['GaussianFilter', 'GaussianKDEFilter',
             'GaussianMixtureFilter'][idx % 3]
    obs, sim, k, has_nan = gen(rng, cname)
    # back to values of order one
    sc_ = float(np.nanmax(np.abs(obs)))
    obs, sim = obs / sc_, sim / sc_
    shift = float(rng.choice([1e4, 1e5, 3e5])) * float(rng.choice([-1, 1]))
    feats = {'family': 'baseline', 'class': cname, 'shift': shift,
             'missing': has_nan}
    ctx.case(('baseline', cname, shift, has_nan), True, sample=feats)
    try:
        f0 = make_filter(cname, obs.copy(), k)
        f1 = make_filter(cname, obs + shift, k)
        v0 = f0.compute_log_likelihood(sim)
        v1 = f1.compute_log_likelihood(sim + shift)
        s0, g0 = f0.compute_sensitivities(sim)
        s1, g1 = f1.compute_sensitivities(sim + shift)
    except Exception as e:      # noqa
        ctx.violation_exc('evaluation_raises', e, {'case': feats}, feats)
        return
    ctx.count('baseline_shifts_compared')
    sc = abs(v0) + 1
    gs = 1 + float(np.max(np.abs(g0)))
    # conditioning: differences of numbers of size |shift| carry an absolute
    # rounding error ~1e-16 |shift|, i.e. a relative error 1e-16 |shift| / s
    # in units of the smallest spread s of a cell of simulated values (a
    # one-pass variance loses the SQUARE of that ratio)
    s_min = float(np.min(np.std(sim, axis=0, ddof=1)))
    ratio = abs(shift) / max(s_min, 1e-12)
    rt_v, rt_g = 5e-14 * ratio, 1e-11 * ratio
    ctx.maximum('baseline_shift_relerr_over_bound',
                abs(v1 - v0) / (rt_v * sc))
    if not (ctx.close(v1, v0, rtol=rt_v, scale=sc) and
            ctx.close(s1, v0, rtol=rt_v, scale=sc)):
        ctx.violation('invariance', 'not_invariant:%s:baseline_shift' % cname,
                      {'score': v0, 'score_on_the_baseline': v1,
                       's1_score_on_the_baseline': s1, 'shift': shift},
                      feats)
    elif not ctx.close(np.asarray(g1, dtype=float),
                       np.asarray(g0, dtype=float), rtol=rt_g, scale=gs):
        ctx.violation('invariance',
                      'not_invariant:%s:baseline_shift_gradient' % cname,
                      {'shift': shift}, feats)


FAMILIES = [
    Family('baseline', baseline_case, quick=150, thorough=1500),
    Family('base', base_case, quick=3000, thorough=60000),
    Family('composed', composed_case, quick=1000, thorough=20000),
]
