"""
C11 - the behaviour of a mechanistic model depends only on its final (net)
configuration; copies are faithful and independent.
Oracle: a small state machine reduces the call history to its net
configuration, which is replayed in canonical order on a freshly created
model; both models are compared on every public observable and on
simulations (the reference integrator stands in for CVODES).
"""
import itertools

import numpy as np

from harness.bootstrap import load_chi
from harness.core import Family
from harness.oracle import pk
from checks import c09

chi = load_chi()

PROP = 'C11'
TITLE = 'mechanistic model behaviour depends only on its final configuration'
RULE = (
    'histories over the alphabet {set_administration(compartment, direct / '
    'indirect), set_dosing_regimen(3 variants), set_outputs(3 selections), '
    'enable_sensitivities(T/F), simulate, copy (continue on the copy or on '
    'the original), set_parameter_names, set_output_names, wrap in '
    'ReducedMechanisticModel, fix, release}; exhaustive family: every '
    'history of length <=3 (quick) / <=4 (thorough) over the 12 core ops on '
    'the library 1-compartment model; random family: length <=10 on the '
    'library model and a generated 2-compartment model; signature = op '
    'sequence (+ abstract state reached); non-trivial = >=2 state-changing '
    'ops')
ASSUMPTIONS = [
    'net-configuration semantics: latest route, latest regimen (kept across '
    'a route change), latest output selection, sensitivities as last '
    'switched unless set_outputs / set_administration / copy came later '
    '(documented resets)',
    'histories whose semantics the documentation leaves open are not '
    'generated: a route change after renaming, the depot as selected output '
    '(set_outputs after renaming outputs: names of de-selected outputs are '
    'dropped, as a fresh model would show them)',
    'reference integrator behind myokit.Simulation (DESIGN 2.2)',
    'a ReducedMechanisticModel wrapped around a model with enabled sensitivities takes them over (all free parameters, as the wrapper defines since the repair of its constructor)',
    'a configuration call that the model refuses (KeyError / ValueError for outputs that do not exist for the new route) must leave the model unchanged; it does not count as part of the net configuration',
]
ANCHORS = [
    'chi._mechanistic_models.PKPDModel.set_administration',
    'chi._mechanistic_models.PKPDModel.set_dosing_regimen',
    'chi._mechanistic_models.PKPDModel.copy',
    'chi._mechanistic_models.PKPDModel.enable_sensitivities',
    'chi._mechanistic_models.SBMLModel.set_outputs',
    'chi._mechanistic_models.SBMLModel.copy',
    'chi._mechanistic_models.ReducedMechanisticModel.copy',
    'chi._mechanistic_models.ReducedMechanisticModel.fix_parameters',
]
REQUIRED = {'histories_compared': 300, 'observables_compared': 2000,
            'copies_checked': 20, 'simulations_compared': 300,
            'sensitivities_vs_fd': 50}
TIMES = np.array([0.3, 1.0, 1.7, 2.4])
REGS = [dict(dose=2., start=0.5, duration=0.2),
        dict(dose=1., start=0., duration=0.01, period=1., num=2),
        dict(dose=3., start=1., duration=0.5, period=1.),
        # (doses withdrawn: a period with zero doses)
        dict(dose=2., start=0.2, duration=0.1, period=1., num=0)]


class Target(object):
    """model factory + the vocabulary valid for it"""

    def __init__(self, which):
        self.which = which
        if which == 'library':
            self.comps = [('central', 'drug_amount')]
            self.outs = [['central.drug_concentration'],
                         ['central.drug_amount'],
                         ['central.drug_amount',
                          'central.drug_concentration'],
                         ['central.drug_concentration',
                          'central.drug_amount'],
                         # exists only while the route is indirect
                         ['dose.drug_amount', 'central.drug_concentration']]
        else:
            rng = np.random.default_rng(12345)
            while True:
                am = pk.random_model(rng, allow_nonlinear=False)
                if len(am.comps) == 2 and not am.extra:
                    break
            self.am = am
            self.comps = [(c, s + '_amount') for c, s in am.comps]
            c = am.output_candidates()
            self.outs = [[c[0]], [c[1], c[2]], [c[3], c[0]], [c[2], c[1]]]

    def fresh(self):
        if self.which == 'library':
            from chi.library import ModelLibrary
            return ModelLibrary().one_compartment_pk_model()
        return c09._load(self.am, chi.PKPDModel)


_TARGETS = {}


def target(which):
    if which not in _TARGETS:
        _TARGETS[which] = Target(which)
    return _TARGETS[which]


class State(object):
    """abstract (net) configuration"""

    def __init__(self):
        self.admin = None
        self.reg = None
        self.outs = None
        self.sens = False
        self.sens_sub = None   # original names of a sensitivity subset
        self.user_protocol = None   # caller-owned myokit.Protocol (alias)
        self.pnames = {}
        self.onames = {}
        self.reduced = False
        self.fixed = {}        # original (myokit) name -> value

    def copy(self):
        s = State()
        s.__dict__.update({k: (dict(v) if isinstance(v, dict) else v)
                           for k, v in self.__dict__.items()})
        return s

    def key(self):
        return (self.admin, self.reg, self.outs, self.sens, self.sens_sub,
                tuple(sorted(self.pnames)), tuple(sorted(self.onames)),
                self.reduced, tuple(sorted(self.fixed)))


PROTOCOLS = [((1.5, 0.4, 0.3),), ((2.0, 0.2, 0.1), (0.5, 1.2, 0.4))]


def _protocol(events):
    import myokit
    p = myokit.Protocol()
    for level, start, duration in events:
        p.schedule(level, start, duration)
    return p


def _flag(value, hist):
    """the route flag as it comes out of a boolean array or a DataFrame
    column (numpy.bool_) for about half of the calls (decided by the history
    so far, so that a replay makes the same calls); the replayed reference
    model gets the plain Python bool"""
    import zlib
    if zlib.crc32(repr(hist).encode()) % 2:
        return np.bool_(value)
    return bool(value)


def replay(tg, st):
    m = tg.fresh()
    if st.admin is not None:
        (c, v), d = st.admin
        m.set_administration(c, amount_var=v, direct=d)
    if st.outs is not None:
        m.set_outputs(list(tg.outs[st.outs]))
    if st.reg is not None:
        if isinstance(st.reg, tuple):
            m.set_dosing_regimen(_protocol(st.reg))
        else:
            m.set_dosing_regimen(**REGS[st.reg])
    if st.pnames:
        m.set_parameter_names(dict(st.pnames))
    if st.onames:
        m.set_output_names(dict(st.onames))
    if st.reduced:
        m = chi.ReducedMechanisticModel(m)
        if st.fixed:
            m.fix_parameters({st.pnames.get(k, k): v
                              for k, v in st.fixed.items()})
    if st.sens:
        if st.sens_sub is None:
            m.enable_sensitivities(True)
        else:
            m.enable_sensitivities(True, parameter_names=[
                st.pnames.get(k, k) for k in st.sens_sub])
    return m


def _fd_sensitivities(m, p, cols):
    """Richardson-extrapolated central differences of the model's own
    sensitivity-free simulation (on a copy, which starts with the switch
    off), for the parameter positions `cols`"""
    c = m.copy()
    if c.has_sensitivities():
        c.enable_sensitivities(False)
    out = []
    for j in cols:
        h = 1e-3 * max(abs(p[j]), 0.1)
        d = []
        for hh in (h, h / 2):
            pp, pm = p.copy(), p.copy()
            pp[j] += hh
            pm[j] -= hh
            d.append((np.asarray(c.simulate(pp, TIMES)) -
                      np.asarray(c.simulate(pm, TIMES))) / (2 * hh))
        out.append((4 * d[1] - d[0]) / 3)
    if not out:
        return np.zeros((len(TIMES), c.n_outputs(), 0))
    # (n_times, n_outputs, n_cols)
    return np.transpose(np.array(out), (2, 1, 0))


def observe(m, tg, sens_cols=None, ctx=None, hist=None):
    """sens_cols: positions (in parameters()) the sensitivities refer to;
    when given, the sensitivities are also compared with finite differences
    of the model's own simulation - an oracle that does not pass through the
    configuration calls at all"""
    o = {}
    o['parameters'] = list(m.parameters())
    o['n_parameters'] = m.n_parameters()
    o['outputs'] = list(m.outputs())
    o['n_outputs'] = m.n_outputs()
    o['has_sensitivities'] = bool(m.has_sensitivities())
    inner = m.mechanistic_model() if isinstance(
        m, chi.ReducedMechanisticModel) else m
    o['administration'] = inner.administration()
    r = m.dosing_regimen()
    o['regimen'] = None if r is None else sorted(
        (e.level(), e.start(), e.duration(), e.period(), e.multiplier())
        for e in r.events())
    p = np.linspace(0.5, 1.1, m.n_parameters())
    y = m.simulate(p, TIMES)
    if isinstance(y, tuple):
        o['simulation'] = np.asarray(y[0])
        o['sensitivities'] = np.asarray(y[1])
        if ctx is not None:
            cols = list(range(m.n_parameters())) if sens_cols is None \
                else list(sens_cols)
            ctx.count('sensitivities_vs_fd')
            fd = _fd_sensitivities(m, p, cols)
            got = o['sensitivities']
            # (finite-difference noise is relative to the size of the
            # simulated values: a true zero sensitivity shows as ~1e-8)
            sc = max(float(np.max(np.abs(fd))) if fd.size else 0.0,
                     float(np.max(np.abs(o['simulation'])))) + 1e-6
            if got.shape != fd.shape or not ctx.close(
                    got, fd, rtol=1e-4, scale=sc):
                ctx.violation(
                    'sensitivities_are_derivatives_of_the_simulation',
                    'sensitivities_vs_fd',
                    {'history': hist, 'chi': got, 'finite_differences': fd,
                     'columns': cols, 'parameters': list(m.parameters())},
                    {'target': tg.which})
    else:
        o['simulation'] = np.asarray(y)
    return o


def compare(ctx, a, b, what, hist, feats):
    """a: history model, b: reference; returns True if equal"""
    for k in b:
        ctx.count('observables_compared')
        if k not in a:
            ok = False
        elif isinstance(b[k], np.ndarray):
            ok = a[k].shape == b[k].shape and ctx.close(
                a[k], b[k], rtol=1e-7,
                scale=np.max(np.abs(b[k])) + 1e-6 if b[k].size else 1)
        else:
            ok = a[k] == b[k]
        if not ok:
            ctx.violation(what, '%s:%s' % (what, k),
                          {'observable': k, 'history_model': a.get(k),
                           'reference': b[k], 'history': hist}, feats)
            return False
    if 'sensitivities' in a and 'sensitivities' not in b:
        ctx.violation(what, what + ':sensitivities',
                      {'history': hist,
                       'note': 'history model returned sensitivities'},
                      feats)
        return False
    return True


# ----------------------------------------------------------------- ops
def core_ops(tg):
    ops = []
    for ci in range(len(tg.comps)):
        ops += [('admin', ci, True), ('admin', ci, False)]
    ops += [('reg', i) for i in range(len(REGS))]
    ops += [('out', i) for i in range(len(tg.outs))]
    ops += [('sens', True), ('sens', False), ('sim',), ('copy', 'copy')]
    return ops


_ORIG = {}


def _original_parameters(tg, admin):
    key = (tg.which, admin)
    if key not in _ORIG:
        f = tg.fresh()
        (c, v), d = admin
        f.set_administration(c, amount_var=v, direct=d)
        _ORIG[key] = set(f.parameters())
    return _ORIG[key]


def _sens_cols(m, st):
    if st.sens_sub is None:
        return None
    names = list(m.parameters())
    # (selected parameters that are fixed at the moment have no column)
    return sorted(names.index(st.pnames.get(k, k)) for k in st.sens_sub
                  if st.pnames.get(k, k) in names)


def extended_ops(tg):
    return core_ops(tg) + [
        ('copy', 'original'), ('rename_param',), ('rename_out',),
        ('wrap',), ('fix',), ('release',), ('sim',), ('sens_sub',),
        ('sens_sub',), ('rename_param',), ('rename_back',),
        ('reg_protocol', 0), ('reg_protocol', 1), ('mutate_protocol',),
        ('mutate_reported_regimen',), ('mutate_reported_administration',)]


def apply(ctx, rng, tg, m, st, op, side, hist):
    """returns (model to continue with, state) or None if skipped"""
    k = op[0]
    red = isinstance(m, chi.ReducedMechanisticModel)
    if k == 'admin':
        if red:
            return None
        uses_depot = st.outs is not None and any(
            o.startswith('dose.') for o in tg.outs[st.outs])
        if uses_depot:
            # the selected outputs may not exist for the new route: the
            # call may refuse, but then it must leave the model as it was
            before = observe(m, tg)
            try:
                m.set_administration(tg.comps[op[1]][0],
                                     amount_var=tg.comps[op[1]][1],
                                     direct=_flag(op[2], hist))
            except (KeyError, ValueError):
                ctx.count('refused_configuration_calls')
                after = observe(m, tg)
                compare(ctx, after, before,
                        'refused_call_leaves_model_unchanged', hist,
                        {'op': 'admin', 'target': tg.which})
                return 'stop'
            if op[2]:
                return 'stop'       # accepted: outputs then unspecified
            st.admin = (tg.comps[op[1]], op[2])
            st.sens = False
            st.sens_sub = None
            st.pnames = {k_: v for k_, v in st.pnames.items()
                         if k_ in _original_parameters(tg, st.admin)}
            return m, st
        m.set_administration(tg.comps[op[1]][0],
                             amount_var=tg.comps[op[1]][1],
                             direct=_flag(op[2], hist))
        st.admin = (tg.comps[op[1]], op[2])
        st.sens = False
        st.sens_sub = None
        # names given to parameters / outputs that still exist are kept
        st.pnames = {k_: v for k_, v in st.pnames.items()
                     if k_ in _original_parameters(tg, st.admin)}
    elif k == 'reg':
        if st.admin is None:
            try:
                m.set_dosing_regimen(**REGS[op[1]])
            except ValueError:
                ctx.reject('regimen before route')
                return None
            ctx.violation('regimen_without_route_refused',
                          'regimen_accepted_without_route',
                          {'history': hist}, {})
            return None
        m.set_dosing_regimen(**REGS[op[1]])
        st.reg = op[1]
        st.user_protocol = None
    elif k == 'reg_protocol':
        if st.admin is None:
            return None
        p = _protocol(PROTOCOLS[op[1]])
        m.set_dosing_regimen(p)
        st.reg = PROTOCOLS[op[1]]
        st.user_protocol = p
    elif k == 'mutate_protocol':
        # the caller re-uses the Protocol object it passed in earlier for
        # its next scenario: not a configuration call on the model
        if st.user_protocol is None:
            return None
        st.user_protocol.schedule(7.0, 2.0 + 0.1 * len(hist), 0.05)
    elif k == 'mutate_reported_regimen':
        # ... or edits the object the getter returned
        r = m.dosing_regimen()
        if r is None:
            return None
        r.schedule(5.0, 3.0 + 0.1 * len(hist), 0.05)
    elif k == 'mutate_reported_administration':
        # ... or the dictionary administration() returned
        inner = m.mechanistic_model() if red else m
        info = inner.administration()
        if info is None:
            return None
        info['direct'] = not info['direct']
        info['compartment'] = 'edited by the caller'
    elif k == 'out':
        # outputs may be addressed by their original or by their current
        # (renamed) name; names of outputs that are de-selected are dropped
        # (a fresh model that selects them again shows the original name)
        names = list(tg.outs[op[1]])
        if any(o.startswith('dose.') for o in names) and (
                st.admin is None or st.admin[1]):
            return None         # no depot compartment: not applicable
        if st.onames and rng.random() < 0.5:
            names = [st.onames.get(n, n) for n in names]
        m.set_outputs(names)
        st.outs = op[1]
        st.onames = {k_: v for k_, v in st.onames.items()
                     if k_ in tg.outs[op[1]]}
        st.sens = False
        st.sens_sub = None
    elif k == 'sens':
        m.enable_sensitivities(op[1])
        st.sens = op[1]
        st.sens_sub = None
    elif k == 'sens_sub':
        names = list(m.parameters())
        if len(names) < 2:
            return None
        # (on a reduced model the selection is made among its free
        # parameters; later fix / release calls keep the selection)
        n_sub = int(rng.integers(1, len(names)))
        sub = [names[i] for i in rng.permutation(len(names))[:n_sub]]
        m.enable_sensitivities(True, parameter_names=sub)
        inv = {v: k_ for k_, v in st.pnames.items()}
        st.sens = True
        st.sens_sub = tuple(sorted(inv.get(n, n) for n in sub))
    elif k == 'rename_back':
        if not st.pnames:
            return None
        orig = sorted(st.pnames)[int(rng.integers(len(st.pnames)))]
        if orig in st.fixed:
            return None
        m.set_parameter_names({st.pnames[orig]: orig})
        st.pnames.pop(orig)
    elif k == 'sim':
        p = np.full(m.n_parameters(), 0.7)
        m.simulate(p, TIMES)
    elif k == 'copy':
        before = observe(m, tg)
        c = m.copy()
        ctx.count('copies_checked')
        # the copy equals the original at copy time (sensitivity switch is
        # documented to be reset on the copy)
        want = dict(before)
        want['has_sensitivities'] = False
        want.pop('sensitivities', None)
        got = observe(c, tg)
        feats = {'op': 'copy', 'target': tg.which}
        if not compare(ctx, got, want, 'copy_equals_original', hist, feats):
            return 'stop'
        after = observe(m, tg)
        if not compare(ctx, after, before, 'original_unchanged_by_copy',
                       hist, feats):
            return 'stop'
        st_other = st.copy()
        if op[1] == 'copy':
            side.append((m, st_other, before))
            st.sens = False
            return c, st
        st_c = st.copy()
        st_c.sens = False
        side.append((c, st_c, got))
    elif k == 'rename_param':
        names = m.parameters()
        if not len(names):
            return None
        j = int(rng.integers(len(names)))
        new = 'renamed %d' % len(hist)
        m.set_parameter_names({names[j]: new})
        inv = {v: k_ for k_, v in st.pnames.items()}
        orig = inv.get(names[j], names[j])
        st.pnames[orig] = new
    elif k == 'rename_out':
        names = m.outputs()
        j = int(rng.integers(len(names)))
        new = 'output %d' % len(hist)
        m.set_output_names({names[j]: new})
        inv = {v: k_ for k_, v in st.onames.items()}
        orig = inv.get(names[j], names[j])
        st.onames[orig] = new
    elif k == 'wrap':
        # (a wrapper around a model with enabled sensitivities takes them
        # over: sensitivities with respect to all free parameters, also
        # when a subset had been selected on the wrapped model)
        if red:
            return None
        m = chi.ReducedMechanisticModel(m)
        st.reduced = True
        st.sens_sub = None
        return m, st
    elif k == 'fix':
        if not red:
            return None
        names = m.parameters()
        if len(names) < 1:
            return None
        j = int(rng.integers(len(names)))
        val = float(rng.uniform(0.4, 1.2))
        m.fix_parameters({names[j]: val})
        inv = {v: k_ for k_, v in st.pnames.items()}
        st.fixed[inv.get(names[j], names[j])] = val
    elif k == 'fix_all':
        if not red or not len(m.parameters()):
            return None
        names = list(m.parameters())
        inv = {v: k_ for k_, v in st.pnames.items()}
        vals = {n: float(rng.uniform(0.4, 1.2)) for n in names}
        m.fix_parameters(vals)
        for n, v in vals.items():
            st.fixed[inv.get(n, n)] = v
    elif k == 'release':
        if not red or not st.fixed:
            return None
        orig = sorted(st.fixed)[int(rng.integers(len(st.fixed)))]
        m.fix_parameters({st.pnames.get(orig, orig): None})
        st.fixed.pop(orig)
    return m, st


def run_history(ctx, rng, tg, ops, tag):
    hist = []
    feats = {'target': tg.which, 'tag': tag}
    m = tg.fresh()
    st = State()
    side = []          # (model, state, observation at the time of copy)
    for op in ops:
        try:
            res = apply(ctx, rng, tg, m, st, op, side, hist + [op])
        except Exception as e:      # noqa
            ctx.violation_exc('configuration_call_raises', e,
                              {'history': hist + [op]}, feats)
            return
        if res == 'stop':
            return
        if res is None:
            continue
        m, st = res
        hist.append(op)
    feats['ops'] = [o[0] for o in hist]
    feats['n_ops'] = len(hist)
    try:
        a = observe(m, tg, sens_cols=_sens_cols(m, st) if st.sens else None,
                    ctx=ctx, hist=hist)
    except Exception as e:      # noqa
        ctx.violation_exc('observation_raises_after_history', e,
                          {'history': hist}, feats)
        return
    b = observe(replay(tg, st), tg)
    ctx.count('histories_compared')
    ctx.count('simulations_compared')
    if not compare(ctx, a, b, 'equals_fresh_model_with_net_configuration',
                   hist, feats):
        return
    # independence: models set aside at copy time still behave as then
    for other, st_o, snap in side:
        try:
            now = observe(other, tg)
        except Exception as e:      # noqa
            ctx.violation_exc('observation_raises_after_history', e,
                              {'history': hist, 'who': 'other side of copy'},
                              feats)
            return
        ref = dict(snap)
        if not compare(ctx, now, ref, 'unaffected_by_changes_to_its_copy',
                       hist, feats):
            return
    return st


def _sig(ops):
    return tuple('.'.join(str(x) for x in o) for o in ops)


_CORE = core_ops(target('library'))
_HISTS = {n: list(itertools.product(range(len(_CORE)), repeat=n))
          for n in (1, 2, 3, 4)}


def exhaustive3_case(ctx, rng, idx):
    tg = target('library')
    hs = _HISTS[1] + _HISTS[2] + _HISTS[3]
    ops = [_CORE[i] for i in hs[idx % len(hs)]]
    ctx.case(_sig(ops), len(ops) >= 2, sample={'ops': ops})
    run_history(ctx, rng, tg, ops, 'exhaustive3')


def exhaustive4_case(ctx, rng, idx):
    tg = target('library')
    hs = _HISTS[4]
    ops = [_CORE[i] for i in hs[idx % len(hs)]]
    ctx.case(_sig(ops), True, sample={'ops': ops})
    run_history(ctx, rng, tg, ops, 'exhaustive4')


def random_case(ctx, rng, idx):
    tg = target(['library', 'generated'][idx % 2])
    alphabet = extended_ops(tg)
    n = int(rng.integers(2, 11))
    ops = [alphabet[int(rng.integers(len(alphabet)))] for _ in range(n)]
    ctx.case((tg.which,) + _sig(ops), True,
             sample={'target': tg.which, 'ops': ops})
    run_history(ctx, rng, tg, ops, 'random')


def reduced_case(ctx, rng, idx):
    """histories around a ReducedMechanisticModel: a short prefix on the
    bare model, the wrapper, then fix / release / sensitivity selections /
    output changes / renames in random order (all parameters may get
    fixed)"""
    tg = target(['library', 'generated'][idx % 2])
    core = core_ops(tg)
    prefix = [core[int(rng.integers(len(core)))]
              for _ in range(int(rng.integers(0, 3)))]
    alphabet = [('fix',), ('fix',), ('fix_all',), ('release',), ('sens_sub',),
                ('sens_sub',), ('sens', True), ('sens', False), ('sim',),
                ('rename_param',), ('rename_back',), ('copy', 'copy'),
                ('copy', 'original')] + \
        [('out', i) for i in range(len(tg.outs))]
    n = int(rng.integers(3, 9))
    ops = prefix + [('wrap',)] + [
        alphabet[int(rng.integers(len(alphabet)))] for _ in range(n)]
    ctx.case((tg.which, 'reduced') + _sig(ops), True,
             sample={'target': tg.which, 'ops': ops})
    run_history(ctx, rng, tg, ops, 'reduced')


N3 = len(_HISTS[1]) + len(_HISTS[2]) + len(_HISTS[3])
FAMILIES = [
    Family('exhaustive3', exhaustive3_case, quick=N3, thorough=N3),
    Family('exhaustive4', exhaustive4_case, quick=0,
           thorough=len(_HISTS[4])),
    Family('random', random_case, quick=1200, thorough=20000),
    Family('reduced', reduced_case, quick=500, thorough=8000),
]
