#!/venv/bin/python
"""
Entry point of the chi runtime-monitoring framework.

    run.py C04 [--tier quick|thorough] [--shards N]
    run.py C04 --replay replays/C04/<file>.json
    run.py all --tier quick

Exit 0: property held on everything explored (KNOWN-FINDING lines allowed)
Exit 1: at least one `VIOLATION property=<id> replay=<path>` line
Exit 2: inconclusive (a deciding monitor never observed enough events)
"""
import argparse
import hashlib
import importlib
import json
import os
import shutil
import subprocess
import sys
import tempfile
import time

VERIF = os.path.dirname(os.path.abspath(__file__))
# evidence / replays go to VERIF_OUT when set (self-tests against mutant
# trees must not overwrite the evidence of the real tree)
OUT = os.environ.get('VERIF_OUT', VERIF)
PY = '/venv/bin/python'
sys.path.insert(0, VERIF)

LEVEL = 'exploration'


def _env():
    env = dict(os.environ)
    env['PYTHONHASHSEED'] = '0'
    env['CHI_VERIF'] = '1'
    env.setdefault('CHI_REPO', '/repo')
    env['PYTHONPATH'] = env['CHI_REPO'] + os.pathsep + VERIF
    env['PYTHONDONTWRITEBYTECODE'] = '1'
    env['OMP_NUM_THREADS'] = '1'
    env['OPENBLAS_NUM_THREADS'] = '1'
    env['MKL_NUM_THREADS'] = '1'
    return env


def run_shards(prop, tier, seed, n_shards, budget_s, only=None):
    tmp = tempfile.mkdtemp(prefix='chiverif_', dir=os.path.join(VERIF, '.scratch'))
    procs = []
    env = _env()
    shards = range(n_shards) if only is None else [0]
    for sh in shards:
        out = os.path.join(tmp, 'shard%d.json' % sh)
        log = open(os.path.join(tmp, 'shard%d.log' % sh), 'w')
        cmd = [PY, '-m', 'harness.core', prop, tier, str(seed), str(sh),
               str(n_shards if only is None else 1), str(budget_s), out]
        if only is not None:
            cmd += [only[0], str(only[1])]
        p = subprocess.Popen(cmd, cwd=VERIF, env=env, stdout=log,
                             stderr=subprocess.STDOUT)
        procs.append((sh, p, out, log))
    results, failures = [], []
    deadline = time.time() + budget_s * 1.5 + 120
    for sh, p, out, log in procs:
        try:
            p.wait(timeout=max(1.0, deadline - time.time()))
        except subprocess.TimeoutExpired:
            p.kill()
            p.wait()
            failures.append('shard %d: wall-clock watchdog' % sh)
            continue
        finally:
            log.close()
        if p.returncode != 0 or not os.path.exists(out):
            tail = open(os.path.join(tmp, 'shard%d.log' % sh)).read()[-2000:]
            failures.append('shard %d exit %s: %s' % (sh, p.returncode, tail))
            continue
        results.append(json.load(open(out)))
    shutil.rmtree(tmp, ignore_errors=True)
    return results, failures


def classify(violation, findings):
    from harness import findings as F
    for kf in findings:
        if kf.get('status') != 'open':
            continue
        if kf['property'] != violation['property']:
            continue
        fn = getattr(F, kf['classifier'], None)
        if fn is not None and fn(violation):
            return kf
    return None


def aggregate(prop, tier, seed, module, results, failures, wall):
    known = json.load(open(os.path.join(VERIF, 'known_findings.json')))
    evaluations = sum(r['evaluations'] for r in results)
    sigs = set()
    for r in results:
        sigs.update(r['sigs_nontrivial'])
    counters, rejected, maxima, anchors = {}, {}, {}, {}
    samples, violations, herr = [], [], []
    truncated = False
    lines_exec = 0
    for r in results:
        for k, v in r['counters'].items():
            counters[k] = counters.get(k, 0) + v
        for k, v in r['rejected'].items():
            rejected[k] = rejected.get(k, 0) + v
        for k, v in r['maxima'].items():
            maxima[k] = max(maxima.get(k, -1.0), v)
        for k, v in r['anchors'].items():
            if v is None:
                anchors.setdefault(k, None)
            else:
                anchors[k] = (anchors.get(k) or 0) + v
        samples.extend(r['samples'])
        violations.extend(r['violations'])
        herr.extend(r['harness_errors'])
        truncated = truncated or r['truncated']
        lines_exec = max(lines_exec, r['chi_lines_executed'])
    samples = samples[:6]

    # classify violations
    new, kf_hits = {}, {}
    for v in violations:
        kf = classify(v, known)
        if kf is not None:
            kf_hits.setdefault(kf['id'], [kf, 0, v])
            kf_hits[kf['id']][1] += 1
        else:
            new.setdefault(v['mechanism'], []).append(v)

    # inconclusive?
    reasons = []
    if failures:
        reasons.append('shard failures: ' + '; '.join(f[:300] for f in failures))
    if herr:
        reasons.append('%d harness errors, first: %s' % (
            len(herr), herr[0]['error'][-600:]))
    for name, minimum in getattr(module, 'REQUIRED', {}).items():
        need = minimum if isinstance(minimum, int) else minimum[tier]
        if counters.get(name, 0) < need:
            reasons.append('monitor %s observed %d < %d events' % (
                name, counters.get(name, 0), need))
    for dotted, n in anchors.items():
        if n == 0:
            reasons.append('anchor %s never executed' % dotted)
    if truncated:
        reasons.append('cut short by the wall-clock watchdog (%d cases '
                       'skipped): a verdict needs the whole workload' % sum(
                           v for k, v in counters.items()
                           if k.startswith('skipped_by_watchdog')))
    if evaluations < 1 or len(sigs) < 2:
        reasons.append('too few cases')

    # write replays
    rdir = os.path.join(OUT, 'replays', prop)
    lines = []
    # replays of an earlier run with the same (tier, seed) are superseded
    import glob
    for old in glob.glob(os.path.join(rdir, '%s_%s_s%d_*.json' % (
            prop, tier, seed))):
        os.remove(old)
    for mech, vs in sorted(new.items()):
        os.makedirs(rdir, exist_ok=True)
        h = hashlib.sha1(mech.encode()).hexdigest()[:10]
        path = os.path.join(rdir, '%s_%s_s%d_%s.json' % (prop, tier, seed, h))
        rec = dict(vs[0])
        rec['n_witnesses'] = len(vs)
        rec['other_witnesses'] = [
            {'family': v['family'], 'idx': v['idx']} for v in vs[1:10]]
        with open(path, 'w') as f:
            json.dump(rec, f, indent=1)
        lines.append('VIOLATION property=%s replay=%s' % (
            prop, os.path.relpath(path, OUT)))
        lines.append('  monitor=%s mechanism=%s witnesses=%d' % (
            vs[0]['monitor'], mech, len(vs)))
    for kid, (kf, n, v) in sorted(kf_hits.items()):
        lines.append('KNOWN-FINDING: property=%s %s (%s; %d witnesses, e.g. '
                     'family=%s idx=%s)' % (
                         prop, kf['mechanism'], kid, n, v['family'], v['idx']))

    verdict = 'held'
    if new:
        verdict = 'violated'
    elif reasons:
        verdict = 'inconclusive'

    coverage = {
        'evaluations': int(evaluations),
        'distinct_nontrivial': int(len(sigs)),
        'rule': module.RULE,
        'samples': samples if samples else [{'note': 'no sample recorded'}],
        'exhaustive': bool(getattr(module, 'EXHAUSTIVE', False)),
        'monitor_counters': counters,
        'max_discrepancies': maxima,
        'rejected_inputs': rejected,
        'anchor_lines_executed': anchors,
        'chi_lines_executed': lines_exec,
        'truncated_by_watchdog': truncated,
        'verdict': verdict,
        'inconclusive_reasons': reasons,
        'known_finding_hits': {k: v[1] for k, v in kf_hits.items()},
        'new_violation_mechanisms': sorted(new.keys()),
        'shards': len(results),
        'chi_repo': os.environ.get('CHI_REPO', '/repo'),
    }
    evidence = {
        'property_id': prop, 'tier': tier, 'seed': int(seed),
        'level': LEVEL, 'coverage': coverage,
        'assumptions': list(module.ASSUMPTIONS),
        'wall_s': round(wall, 2),
        'violations': int(sum(len(v) for v in new.values())),
    }
    os.makedirs(os.path.join(OUT, 'evidence'), exist_ok=True)
    with open(os.path.join(OUT, 'evidence', prop + '.json'), 'w') as f:
        json.dump(evidence, f, indent=1, sort_keys=True)
    return verdict, lines, reasons, coverage


def run_property(prop, tier, seed, n_shards):
    module = importlib.import_module('checks.' + prop.lower())
    # (a generous wall-clock watchdog, 20-30 times the run time on an idle
    # machine; a run it cuts short is inconclusive, not held)
    budget = module.BUDGET[tier] if hasattr(module, 'BUDGET') else (
        900 if tier == 'quick' else 5400)
    t0 = time.time()
    results, failures = run_shards(prop, tier, seed, n_shards, budget)
    wall = time.time() - t0
    verdict, lines, reasons, cov = aggregate(
        prop, tier, seed, module, results, failures, wall)
    for ln in lines:
        print(ln)
    if verdict == 'inconclusive':
        print('INCONCLUSIVE property=%s reason=%s' % (prop, ' | '.join(reasons)))
    print('%s %s tier=%s seed=%d: %s; %d cases, %d distinct non-trivial, '
          '%.1fs' % (prop, module.TITLE, tier, seed, verdict,
                     cov['evaluations'], cov['distinct_nontrivial'], wall))
    return {'held': 0, 'violated': 1, 'inconclusive': 2}[verdict]


def replay(prop, path):
    rec = json.load(open(path))
    module = importlib.import_module('checks.' + prop.lower())
    results, failures = run_shards(
        prop, rec['tier'], rec['seed'], 1, 3600,
        only=(rec['family'], rec['idx']))
    if failures:
        print('INCONCLUSIVE property=%s reason=%s' % (prop, failures))
        return 2
    vs = results[0]['violations']
    known = json.load(open(os.path.join(VERIF, 'known_findings.json')))
    rc = 0
    for v in vs:
        kf = classify(v, known)
        if kf is None:
            rc = 1
            print('VIOLATION property=%s replay=%s' % (prop, path))
        else:
            print('KNOWN-FINDING: property=%s %s' % (prop, kf['mechanism']))
        print(json.dumps(v, indent=1)[:4000])
    if not vs:
        print('replayed case family=%s idx=%s: no violation' % (
            rec['family'], rec['idx']))
    if results[0]['harness_errors']:
        print(results[0]['harness_errors'][0]['error'])
        return 2
    return rc


def main():
    ap = argparse.ArgumentParser()
    ap.add_argument('prop')
    ap.add_argument('--tier', default=os.environ.get('VERIF_TIER', 'quick'),
                    choices=['quick', 'thorough'])
    ap.add_argument('--shards', type=int, default=min(16, os.cpu_count() or 4))
    ap.add_argument('--replay')
    args = ap.parse_args()
    seed = int(os.environ.get('VERIF_SEED', '0'))
    os.makedirs(os.path.join(VERIF, '.scratch'), exist_ok=True)
    if args.replay:
        sys.exit(replay(args.prop.upper(), args.replay))
    if args.prop == 'all':
        rc = 0
        for i in range(1, 21):
            p = 'C%02d' % i
            if os.path.exists(os.path.join(VERIF, 'checks', p.lower() + '.py')):
                rc = max(rc, run_property(p, args.tier, seed, args.shards))
        sys.exit(rc)
    sys.exit(run_property(args.prop.upper(), args.tier, seed, args.shards))


if __name__ == '__main__':
    main()
